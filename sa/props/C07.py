"""C07 -- extend-split areas tile the domain and each carries a valid local combination.

Decided code-shape premises:
 D1 both split functions tile the parent: per dimension a child's (start, end) is (lo, m) or (m, hi) with the parent's bounds,
    one midpoint term, the same test for start and end; 2 resp. 2**dim children; needExtendScheme + 1; coarsening inherited
 D2 extend keeps the box and sets the coarsening to 0 if it was 0, else parent - 1
 D3 field invariant coarseningValue >= 0 over ALL stores in the package (constructor arguments followed to every call site)
 D4 ownership: start / end of an area are stored only by its constructor; no element store into them anywhere
 D5 collision bookkeeping: is_already_calculated / add_level use the same (coarsened, original) pair; update() clears the records
 D6 every evaluation point is handed to exactly one child (points already assigned are removed before the next child)
 D7 sibling agreement: the coarsening conditions of the coarsening versions 1 and 2 are the same expression up to constants
Not decided: disjointness / union as geometry, coefficient sums within an area (arithmetic of the coarsening loops)."""
import ast

from ..cfg import cfg_of, walk_local
from ..loader import AnalysisError, src
from ..terms import Terms, terms_of, show, subterms
from .. import rules as R

EXPLANATION = ("Static analysis of RefinementObjectExtendSplit and SpatiallyAdaptiveExtendScheme: complementary conditional "
               "expressions with a shared midpoint term in both split routines, value-term identity of the extended box, a "
               "field invariant coarseningValue >= 0 checked at every store of the package with constructor arguments followed "
               "to all call sites, init-only ownership of start/end, paired collision bookkeeping calls, and the set-difference "
               "idiom of the point assignment.")

RO = "RefinementObject.RefinementObjectExtendSplit"
ES = "spatiallyAdaptiveExtendSplit.SpatiallyAdaptiveExtendScheme"


def _ctor_kwargs(prog, fi, call, cls):
    init = prog.lookup_method(cls, "__init__")
    names = [p for p in init.params if p != init.self_name]
    out = {}
    for k, a in enumerate(call.args):
        if k < len(names):
            out[names[k]] = a
    for kw in call.keywords:
        out[kw.arg] = kw.value
    return out


def _split_checks(prog, ctx, fi, ro, single):
    tm = Terms(fi.node, max_depth=0)
    key = fi.qual
    ctors = [x for x in R.calls_in(fi.node) if prog.resolve_class_expr(fi.module.name, x.func, None) is ro]
    if len(ctors) != 1:
        ctx.violation("C07.D1", R.key_of(fi, "one-constructor"), fi.loc(), "%s constructs children at %d sites (expected one inside the child loop)" % (fi.name, len(ctors)))
        return
    a = _ctor_kwargs(prog, fi, ctors[0], ro)
    sv, ev = a.get("start"), a.get("end")
    if not (isinstance(sv, ast.Name) and isinstance(ev, ast.Name)):
        ctx.violation("C07.D1", R.key_of(fi, "child-box"), fi.loc(ctors[0]), "child start/end are not the per-child arrays")
        return
    # element stores into the child arrays
    sst, est = [], []
    for st in walk_local(fi.node):
        if isinstance(st, ast.Assign) and isinstance(st.targets[0], ast.Subscript) and isinstance(st.targets[0].value, ast.Name):
            if st.targets[0].value.id == sv.id:
                sst.append(st)
            if st.targets[0].value.id == ev.id:
                est.append(st)
    ok = len(sst) == 1 and len(est) == 1 and isinstance(sst[0].value, ast.IfExp) and isinstance(est[0].value, ast.IfExp)
    why = "start / end of a child are not each assigned once by a conditional expression"
    if ok:
        s_if, e_if = sst[0].value, est[0].value
        dS, dE = tm.term(sst[0].targets[0].slice), tm.term(est[0].targets[0].slice)
        ts, te = tm.term(s_if.test), tm.term(e_if.test)
        s_lo, s_m = tm.term(s_if.body), tm.term(s_if.orelse)
        e_m, e_hi = tm.term(e_if.body), tm.term(e_if.orelse)
        same_test = ts == te
        same_dim = dS == dE
        same_mid = s_m == e_m
        # parent's bounds: self.start[d] (or the copy's own component before the store) / self.end[d]
        if single:
            lo_ok = s_lo in (("s", ("n", sv.id), dS), ("s", ("a", ("n", "self"), "start"), dS))
            hi_ok = e_hi in (("s", ("n", ev.id), dE), ("s", ("a", ("n", "self"), "end"), dE))
            copies = {b.name: tm.term(b.value) for nm in (sv.id, ev.id) for b in tm.env.bindings.get(nm, []) if b.kind == "assign"}
            lo_ok = lo_ok and copies.get(sv.id) == ("copy", "list", ("a", ("n", "self"), "start"))
            hi_ok = hi_ok and copies.get(ev.id) == ("copy", "list", ("a", ("n", "self"), "end"))
            mid_def = s_m
            if s_m[0] == "n":
                b = R.reaching_unique_def(fi, s_m[1], s_if.orelse)
                mid_def = tm.term(b.value) if b is not None and b.kind == "assign" else s_m
            mid_ok = mid_def[0] == "call" and mid_def[1][2] == "get_mid_point" and \
                mid_def[2][0] == ("s", ("a", ("n", "self"), "start"), dS) and mid_def[2][1] == ("s", ("a", ("n", "self"), "end"), dS)
        else:
            def parent(t, which):
                if t[0] == "s" and t[1][0] == "n":
                    b = tm.env.single(t[1][1])
                    if b is not None and b.kind == "assign" and tm.term(b.value) == ("a", ("n", "self"), which):
                        return True
                return t[0] == "s" and t[1] == ("a", ("n", "self"), which)
            lo_ok = parent(s_lo, "start") and s_lo[2] == dS
            hi_ok = parent(e_hi, "end") and e_hi[2] == dE
            mid_ok = s_m[0] == "s" and s_m[2] == dS
            if mid_ok and s_m[1][0] == "n":
                b = tm.env.single(s_m[1][1])
                mt = Terms(fi.node).term(b.value) if b is not None and b.kind == "assign" else ("?",)
                mid_ok = mt[0] == "comp" and mt[2][0] == "call" and mt[2][1][2] == "get_mid_point" and len(mt[3]) == 1 and mt[3][0][2] == ()
        ok = same_test and same_dim and same_mid and lo_ok and hi_ok and mid_ok
        why = ("same test=%s same dimension=%s shared midpoint=%s lower bound is parent's=%s upper bound is parent's=%s midpoint of the parent's "
               "bounds=%s" % (same_test, same_dim, same_mid, lo_ok, hi_ok, mid_ok))
    ctx.check(ok, "C07.D1", R.key_of(fi, "children-tile-parent"), fi.loc(ctors[0]),
              "per dimension a child is (lo, m) or (m, hi) chosen by one test, with the parent's bounds and one midpoint",
              "%s: the children do not tile the parent box (%s)" % (fi.name, why))
    # child count, extend counter, inherited coarsening
    loops = [l for l in R.enclosing_loops(ctors[0]) if isinstance(l, ast.For)]
    cnt = tm.term(loops[0].iter) if loops else ("?",)
    if single:
        okc = cnt == ("call", ("n", "range"), (("c", "2"),), ())
    else:
        okc = False
        if cnt[0] == "call" and cnt[1] == ("n", "range") and len(cnt[2]) == 1:
            n = cnt[2][0]
            if n[0] == "n":
                b = tm.env.single(n[1])
                n = Terms(fi.node).term(b.value) if b is not None and b.kind == "assign" else n
            okc = n in (("op", "Pow", (("c", "2"), ("a", ("n", "self"), "dim"))),)
    ctx.check(okc, "C07.D1", R.key_of(fi, "child-count"), fi.loc(), "%s children" % ("2" if single else "2**dim"),
              "%s creates children in a loop over %s (expected %s)" % (fi.name, show(cnt), "range(2)" if single else "range(2 ** self.dim)"))
    ne = tm.term(a.get("needExtendScheme")) if a.get("needExtendScheme") is not None else ("?",)
    cv = tm.term(a.get("coarseningValue")) if a.get("coarseningValue") is not None else ("?",)
    okn = ne == ("op", "Add", tuple(sorted((("a", ("n", "self"), "needExtendScheme"), ("c", "1")), key=repr))) and cv == ("a", ("n", "self"), "coarseningValue")
    ctx.check(okn, "C07.D1", R.key_of(fi, "child-bookkeeping"), fi.loc(ctors[0]),
              "children count one more split and inherit the coarsening value",
              "%s: children get needExtendScheme=%s, coarseningValue=%s (expected parent + 1, parent's value)" % (fi.name, show(ne), show(cv)))


def run(prog, ctx):
    ro = prog.cls(RO)
    s1 = prog.func(RO + ".split_area_single_dim")
    sa = prog.func(RO + ".split_area_arbitrary_dim")
    ctx.touch(s1, sa)
    _split_checks(prog, ctx, s1, ro, True)
    _split_checks(prog, ctx, sa, ro, False)

    # ------------------------------------------------------------------ D2
    rf = prog.func(RO + ".refine")
    ctx.touch(rf)
    tm = Terms(rf.node, max_depth=0)
    c = cfg_of(rf)
    # successive single-dimension splits: each already created piece is split, never the parent again
    for x in R.calls_in(rf.node, method="split_area_single_dim"):
        loops = [l for l in R.enclosing_loops(x) if isinstance(l, ast.For) and isinstance(l.target, ast.Name)]
        recv = x.func.value
        inner = loops[-1] if loops else None
        ok = inner is not None and isinstance(recv, ast.Name) and recv.id == inner.target.id
        dims_loop = loops[-2] if len(loops) >= 2 else None
        okd = dims_loop is not None and x.args and isinstance(x.args[0], ast.Name) and x.args[0].id == dims_loop.target.id
        # the pieces of one round become the input of the next round
        chained = False
        if inner is not None and isinstance(inner.iter, ast.Name) and dims_loop is not None:
            src_list = inner.iter.id
            for st in dims_loop.body:
                if isinstance(st, ast.Assign) and isinstance(st.targets[0], ast.Name) and st.targets[0].id == src_list and isinstance(st.value, ast.Name):
                    acc = st.value.id
                    chained = any(isinstance(e, ast.Call) and isinstance(e.func, ast.Attribute) and e.func.attr == "extend" and isinstance(e.func.value, ast.Name)
                                  and e.func.value.id == acc and e.args and e.args[0] is x for e in ast.walk(inner))
        ctx.check(ok and okd and chained, "C07.D1", R.key_of(rf, "successive-splits"), rf.loc(x),
                  "every piece of the previous round is split in the next dimension and the pieces replace their parents",
                  "`%s`: the successive single-dimension splits do not split each piece of the previous round in the current dimension "
                  "(receiver `%s`, loop element `%s`): pieces overlap / the parent is split again" % (src(x), src(recv), inner.target.id if inner is not None else None))
    ctors = [x for x in R.calls_in(rf.node) if prog.resolve_class_expr(rf.module.name, x.func, None) is ro]
    ctx.floor("C07.D2", len(ctors), 1, "constructions in the extend branch")
    coarse_local = None
    for x in ctors:
        a = _ctor_kwargs(prog, rf, x, ro)
        ok = tm.term(a.get("start")) == ("a", ("n", "self"), "start") and tm.term(a.get("end")) == ("a", ("n", "self"), "end")
        ctx.check(ok, "C07.D2", R.key_of(rf, "extend-keeps-box"), rf.loc(x), "the extended area keeps the parent's box",
                  "the extend branch constructs the new area with start=%s end=%s instead of the parent's box" % (src(a.get("start")), src(a.get("end"))))
        cvn = a.get("coarseningValue")
        okc = isinstance(cvn, ast.Name)
        why = "the new coarsening is not a local computed from the parent's"
        if okc:
            coarse_local = cvn.id
            par_names = {("a", ("n", "self"), "coarseningValue")}
            for nm, bs in tm.env.bindings.items():
                if len(bs) == 1 and bs[0].kind == "assign" and tm.term(bs[0].value) in par_names:
                    par_names.add(("n", nm))
            seen = {"zero": False, "dec": False}
            bs = [b for b in tm.env.bindings.get(cvn.id, []) if b.kind == "assign"]
            for b in bs:
                v = tm.term(b.value)
                guards = [g for (g, gn) in R.dominating_guards(rf, c.node_of(b.stmt), tm) if gn.kind == "test"]
                if v == ("c", "0"):
                    seen["zero"] = True
                elif v[0] == "op" and v[1] == "Sub" and v[2][0] in par_names and v[2][1] == ("c", "1"):
                    seen["dec"] = True
                    nz = any(g[0] == "cmp" and g[1] == "NotEq" and (g[2] in par_names or g[3] in par_names) and ("c", "0") in (g[2], g[3]) for g in guards) \
                        or any(g[0] == "cmp" and g[1] == "Lt" and g[2] == ("c", "0") and g[3] in par_names for g in guards)
                    if not nz:
                        okc = False
                        why = "parent - 1 is not guarded by parent != 0"
                else:
                    okc = False
                    why = "new coarsening %s is neither 0 nor parent - 1" % show(v)
            if okc and not (seen["zero"] and seen["dec"]):
                okc = False
                why = "the new coarsening is not '0 if the parent's is 0 else parent - 1'"
            if okc:
                okc = c.must_pass_through(c.entry, [R.cfg_node(rf, x)], [c.node_of(b.stmt) for b in bs])
                why = "the new coarsening is not assigned on every path to the construction"
        ctx.check(okc, "C07.D2", R.key_of(rf, "extend-coarsening"), rf.loc(x),
                  "extend sets the coarsening to 0 if it was 0, else parent - 1", "extend: " + why)

    # ------------------------------------------------------------------ D3
    n3 = 0
    init = prog.lookup_method(ro, "__init__")

    def nonneg_expr(fi, e, depth=0):
        """(ok, reason) -- is the expression a provably non-negative coarsening value?"""
        tmf = Terms(fi.node, max_depth=0)
        if e is None:
            return True, "default"
        if isinstance(e, ast.Constant):
            return (isinstance(e.value, int) and e.value >= 0), "constant %r" % (e.value,)
        t = tmf.term(e)
        if t[0] == "a" and t[2] == "coarseningValue":
            return True, "another area's coarsening value (invariant)"
        if t[0] == "call" and t[1] == ("n", "max") and any(x[0] == "c" and x[1].lstrip("-").isdigit() and int(x[1]) >= 0 for x in t[2]):
            return True, "max(., c >= 0)"
        if isinstance(e, ast.Name) and depth < 4:
            bs = [b for b in tmf.env.bindings.get(e.id, [])]
            if bs and all(b.kind == "assign" for b in bs):
                res = []
                cf = cfg_of(fi)
                for b in bs:
                    v = tmf.term(b.value)
                    if v[0] == "op" and v[1] == "Sub" and v[2][1] == ("c", "1"):
                        base = v[2][0]
                        guards = [g for (g, gn) in R.dominating_guards(fi, cf.node_of(b.stmt), tmf) if gn.kind == "test"]
                        basefield = base[0] == "a" and base[2] == "coarseningValue"
                        if base[0] == "n":
                            bb = tmf.env.single(base[1])
                            basefield = bb is not None and bb.kind == "assign" and tmf.term(bb.value)[0] == "a" and tmf.term(bb.value)[2] == "coarseningValue"
                        alias = {base}
                        if base[0] == "n":
                            alias.add(tmf.term(tmf.env.single(base[1]).value)) if tmf.env.single(base[1]) is not None else None
                        nz = any(g[0] == "cmp" and g[1] == "NotEq" and ("c", "0") in (g[2], g[3]) and (g[2] in alias or g[3] in alias or
                                 (g[2][0] == "a" and g[2][2] == "coarseningValue") or (g[3][0] == "a" and g[3][2] == "coarseningValue")) for g in guards)
                        res.append((basefield and nz, "field - 1 under field != 0"))
                    else:
                        res.append(nonneg_expr(fi, b.value, depth + 1))
                return all(r[0] for r in res), "; ".join(r[1] for r in res)
            if any(b.kind == "param" for b in bs) and fi is not init:
                return False, "parameter `%s` of %s" % (e.id, fi.name)
        return False, "cannot show %s >= 0" % show(t)
    for fi in prog.functions.values():
        for s in R.attribute_stores(fi.node):
            if s.attr != "coarseningValue":
                continue
            n3 += 1
            ctx.touch(fi)
            key = R.key_of(fi, "store:coarseningValue#%d" % sum(1 for i in ctx.instances if i.rule == "C07.D3" and i.key.startswith(fi.qual + "::store")))
            if fi is init and s.kind == "plain" and isinstance(s.value, ast.Name) and s.value.id in init.params:
                # follow the constructor argument to every call site
                sites = []
                for f2 in prog.functions.values():
                    for call in [n for n in ast.walk(f2.node) if isinstance(n, ast.Call)]:
                        if prog.resolve_class_expr(f2.module.name, call.func, f2.cls) is ro:
                            a = _ctor_kwargs(prog, f2, call, ro)
                            ok, why = nonneg_expr(f2, a.get("coarseningValue"))
                            sites.append((f2, call, ok, why))
                            ctx.touch(f2)
                bad = [x for x in sites if not x[2]]
                ctx.check(not bad and len(sites) >= 5, "C07.D3", key, fi.loc(s.stmt),
                          "all %d constructor call sites pass a non-negative coarsening value" % len(sites),
                          "constructor call `%s` in %s passes a coarsening value that may be negative: %s"
                          % (src(bad[0][1])[:80] if bad else "?", bad[0][0].qual if bad else "?", bad[0][3] if bad else "fewer call sites than confirmed"))
            elif s.kind == "aug" and fi.name == "update" and fi.cls is ro:
                # sources of update_info: RefinementContainer.update_values <- refine()'s third result, guarded by `is not None`
                okop = isinstance(s.stmt.op, ast.Add) and isinstance(s.value, ast.Name) and s.value.id == fi.params[1]
                srcs_ok, why = _update_sources_nonneg(prog, ctx, ro)
                ctx.check(okop and srcs_ok, "C07.D3", key, fi.loc(s.stmt),
                          "update() adds an increment that is always a non-negative constant",
                          "update() can lower the coarsening value below zero: %s" % (why if okop else "`%s` is not += <increment>" % src(s.stmt)))
            else:
                ok, why = nonneg_expr(fi, s.value) if s.kind == "plain" else (False, "in-place update `%s`" % src(s.stmt))
                ctx.check(ok, "C07.D3", key, fi.loc(s.stmt), "stores a non-negative coarsening value (%s)" % why,
                          "`%s` may store a negative coarsening value: %s" % (src(s.stmt), why))
    ctx.floor("C07.D3", n3, 2, "stores of coarseningValue in the package")

    # ------------------------------------------------------------------ D4
    n4 = 0
    for fi in prog.functions.values():
        for s in R.attribute_stores(fi.node):
            if s.attr not in ("start", "end"):
                continue
            is_self = isinstance(s.base, ast.Name) and s.base.id == fi.self_name
            if s.kind in ("elem", "elem_aug", "mutator"):
                # element store into some object's start/end vector
                if is_self and fi.cls is not None and fi.cls is not ro and ro not in fi.cls.mro:
                    owner_vec = True      # other classes' own vectors (Grid.start ...) are not areas -- but still report if it is an area class
                    if not fi.cls.qual.startswith("RefinementObject."):
                        continue
                n4 += 1
                ctx.violation("C07.D4", R.key_of(fi, "element-store:%s" % s.attr), fi.loc(s.stmt),
                              "`%s` changes a component of an area's %s vector after construction" % (src(s.stmt), s.attr))
            elif is_self and fi.cls is ro and fi.name != "__init__":
                n4 += 1
                ctx.violation("C07.D4", R.key_of(fi, "rebind:%s" % s.attr), fi.loc(s.stmt), "`%s` re-binds an area's %s outside its constructor" % (src(s.stmt), s.attr))
            elif not is_self and s.kind in ("plain", "aug"):
                recv = src(s.base)
                if any(w in recv for w in ("area", "cell", "refine", "obj", "twin", "child", "parent")):
                    n4 += 1
                    ctx.violation("C07.D4", R.key_of(fi, "outside-store:%s.%s" % (recv, s.attr)), fi.loc(s.stmt),
                                  "`%s` re-binds the %s of an existing area from outside" % (src(s.stmt), s.attr))
    if not n4:
        ctx.ok("C07.D4", "package::start-end-init-only", "sparseSpACE/*", "start / end of an area are stored only by its constructor; no element stores")

    # ------------------------------------------------------------------ D5
    cg = prog.func(ES + ".coarsen_grid")
    ctx.touch(cg)
    tmc = Terms(cg.node, max_depth=0)
    cc = cfg_of(cg)
    iac = [x for x in R.calls_in(cg.node, method="is_already_calculated")]
    adl = [x for x in R.calls_in(cg.node, method="add_level")]
    ctx.floor("C07.D5", len(iac) + len(adl), 2, "collision bookkeeping calls in coarsen_grid")
    ok = len(iac) == 1 and len(adl) == 1
    why = "expected one is_already_calculated and one add_level call"
    if ok:
        k1, k2 = [tmc.term(a) for a in iac[0].args], [tmc.term(a) for a in adl[0].args]
        recv_same = tmc.term(iac[0].func.value) == tmc.term(adl[0].func.value) == ("n", cg.params[2])
        guards = [g for (g, gn) in R.dominating_guards(cg, R.cfg_node(cg, adl[0]), tmc) if gn.kind == "test"]
        neg = ("not", tmc.term(iac[0]))
        ok = k1 == k2 and recv_same and neg in guards
        why = "is_already_calculated%s vs add_level%s on %s / %s, add_level under %s" % (
            [show(x) for x in k1], [show(x) for x in k2], src(iac[0].func.value), src(adl[0].func.value), [show(g) for g in guards][-2:])
        if ok:
            # role of the coarsened vector: the local created as a copy list(<level vector parameter>)
            copies = {b.stmt.targets[0].id for bs in Terms(cg.node, max_depth=0).env.bindings.values() for b in bs
                      if b.kind == "assign" and b.value is not None and isinstance(b.stmt, ast.Assign) and isinstance(b.stmt.targets[0], ast.Name)
                      and tmc.term(b.value) in (("copy", "list", ("n", cg.params[1])), ("call", ("a", ("n", cg.params[1]), "copy"), (), ()))}
            ok = k1[0][0] == "copy" and k1[0][1] == "tuple" and k1[0][2][0] == "n" and k1[0][2][1] in copies \
                and k1[1] == ("copy", "tuple", ("n", cg.params[1]))
            why = "the pair is not (tuple(coarsened), tuple(original level vector))"
    ctx.check(ok, "C07.D5", R.key_of(cg, "collision-pair"), cg.loc(),
              "a coarsened level vector is recorded with its original exactly when it was not recorded for another one",
              "collision bookkeeping in coarsen_grid: " + why)
    up = prog.func(RO + ".update")
    ctx.touch(up)
    cu = cfg_of(up)
    okr = any(s.attr == "levelvec_dict" and s.kind == "plain" and isinstance(s.value, ast.Dict) and not s.value.keys
              and cu.post_dominates(cu.node_of(s.stmt), cu.entry) for s in R.self_stores(up))
    ctx.check(okr, "C07.D5", R.key_of(up, "records-cleared"), up.loc(),
              "changing the coarsening of a live area clears its collision records",
              "update() changes the coarsening value but keeps levelvec_dict: records computed for the old coarsening survive")
    isc = prog.func(RO + ".is_already_calculated")
    ctx.touch(isc)
    tmi = Terms(isc.node, max_depth=0)
    rets = {(tuple(sorted((g for (g, gn) in R.dominating_guards(isc, r, tmi) if gn.kind == "test"), key=repr)), tmi.term(r.ast.value))
            for r in R.return_paths(isc)[0] + [b for b in R.return_paths(isc)[1] if b.ast.value is not None]}
    d = ("a", ("n", "self"), "levelvec_dict")
    p1, p2 = isc.params[1], isc.params[2]
    from ..terms import norm_cmp
    want = {((norm_cmp("NotIn", ("n", p1), d),), ("c", "False")),
            ((norm_cmp("In", ("n", p1), d),), norm_cmp("NotEq", ("s", d, ("n", p1)), ("n", p2)))}
    ctx.check(rets == want, "C07.D5", R.key_of(isc, "collision-test"), isc.loc(),
              "a collision is reported iff the coarsened vector is recorded for a different original",
              "is_already_calculated no longer returns `recorded and recorded original != this original`")

    # ------------------------------------------------------------------ D7
    check_coarsening_siblings(prog, ctx)
    check_forward_test_uses_given_coarsening(prog, ctx)

    # ------------------------------------------------------------------ D6
    gp = prog.func(ES + ".get_points_in_areas_recursive")
    ctx.touch(gp)
    gp_entry = gp
    acc = None
    # accumulator-passing style: the public recursion only delegates to a private helper that threads ONE result list through the
    # recursion (`helper(area, points, acc=None)`); the helper then is the recursion that is judged
    body_ = [st for st in gp.node.body if not (isinstance(st, ast.Expr) and isinstance(st.value, ast.Constant))]
    if len(body_) == 1 and isinstance(body_[0], ast.Return) and isinstance(body_[0].value, ast.Call) and isinstance(body_[0].value.func, ast.Attribute) \
            and isinstance(body_[0].value.func.value, ast.Name) and body_[0].value.func.value.id == gp.self_name:
        hq = ES + "." + body_[0].value.func.attr
        call_ = body_[0].value
        if prog.has_func(hq) and hq != gp.qual and [tm_.id if isinstance(tm_, ast.Name) else None for tm_ in call_.args] == gp.params[1:3] and not call_.keywords:
            hf = prog.func(hq)
            if len(hf.params) == 4:
                gp = hf
                acc = hf.params[3]
                ctx.touch(gp)
    tmg = Terms(gp.node, max_depth=0)
    pts = gp.params[2]
    problems = []
    loops = [l for l in walk_local(gp.node) if isinstance(l, ast.For)]
    if not loops:
        problems.append("no loop over the children")
    else:
        loop = loops[0]
        it = tmg.term(loop.iter)
        if not (it[0] == "a" and it[2] == "children" and it[1] == ("n", gp.params[1])):
            problems.append("the loop does not run over area.children")
        sub = [x for x in R.calls_in(loop, method="subset_of_contained_points")]
        if len(sub) != 1 or not (sub[0].args and tmg.term(sub[0].args[0]) == ("n", pts)) or \
                not (isinstance(sub[0].func.value, ast.Name) and isinstance(loop.target, ast.Name) and sub[0].func.value.id == loop.target.id):
            problems.append("a child is not asked for its subset of the still unassigned points")
        else:
            par = getattr(sub[0], "_parent", None)
            cn = par.targets[0].id if isinstance(par, ast.Assign) and isinstance(par.targets[0], ast.Name) else None
            diff_ok = False
            for st in loop.body:
                if isinstance(st, ast.Assign) and isinstance(st.targets[0], ast.Name) and st.targets[0].id == pts:
                    t = tmg.term(st.value)
                    if t == ("op", "Sub", (("call", ("n", "set"), (("n", pts),), ()), ("call", ("n", "set"), (("n", cn),), ()))):
                        diff_ok = True
            if not diff_ok:
                problems.append("points handed to a child are not removed from the candidates of the following children")
            rec = [x for x in R.calls_in(loop, method=gp.name)]
            n_args = 2 if acc is None else 3
            if not (rec and len(rec[0].args) == n_args and tmg.term(rec[0].args[0]) == ("n", loop.target.id) and tmg.term(rec[0].args[1]) == ("n", cn)
                    and (acc is None or tmg.term(rec[0].args[2]) == ("n", acc))):
                problems.append("the recursion does not descend into the child with exactly its contained points")
        for n in ast.walk(loop):
            if isinstance(n, ast.Break):
                g = [gg for (gg, gn) in R.dominating_guards(gp, cfg_of(gp).node_containing(n), tmg) if gn.kind == "test"]
                ln_ = ("call", ("n", "len"), (("n", pts),), ())
                empty_forms = (("cmp", "Eq", ln_, ("c", "0")), ("cmp", "Eq", ("c", "0"), ln_), ("not", ("n", pts)), ("cmp", "LtE", ln_, ("c", "0")),
                               ("cmp", "Lt", ln_, ("c", "1")), ("not", ln_))
                if not any(gg in empty_forms or (gg[0] == "cmp" and gg[1] == "Eq" and ("c", "0") in (gg[2], gg[3])) for gg in g):
                    problems.append("the child loop is left early although points remain")
    # leaf case returns the area with all points it was given
    leaf = [r for r in R.return_paths(gp)[0] if tmg.term(r.ast.value) == ("list", ("tuple", ("n", gp.params[1]), ("n", pts)))]
    if acc is not None:
        # the leaf appends (area, points) to the shared result list, which every path returns
        apps = [x for x in R.calls_in(gp.node, method="append") if isinstance(x.func.value, ast.Name) and x.func.value.id == acc and len(x.args) == 1
                and tmg.term(x.args[0]) == ("tuple", ("n", gp.params[1]), ("n", pts)) and not R.enclosing_loops(x)]
        rets_acc = R.return_paths(gp)
        all_acc = bool(rets_acc[0]) and not rets_acc[1] and not rets_acc[2] and all(tmg.term(r.ast.value) == ("n", acc) for r in rets_acc[0])
        leaf = apps if all_acc else []
    if not leaf:
        problems.append("a leaf does not return (area, points)")
    # the public entry computes the assignment from the CURRENT tree on every call: it is the recursion started at self.root_cell with
    # the given points, on every path, and it reads no other instance state (a remembered assignment would outlive the leaves it names)
    ga = prog.func(ES + ".get_points_assignement_to_areas")
    ctx.touch(ga)
    tga = Terms(ga.node)
    want_ret = ("call", ("a", ("n", ga.self_name), gp_entry.name), (("a", ("n", ga.self_name), "root_cell"), ("n", ga.params[1])), ())
    rets_ = R.return_paths(ga)
    reads_ = {a_ for a_ in R.attr_reads(ga.node, ga.self_name)} - {"root_cell", gp_entry.name}
    stores_ = {s_.attr for s_ in R.self_stores(ga)}
    ok_entry = bool(rets_[0]) and not rets_[1] and not rets_[2] and all(tga.term(r_.ast.value) == want_ret for r_ in rets_[0]) and not reads_ and not stores_
    ctx.check(ok_entry, "C07.D6", R.key_of(ga, "assignment-from-current-tree"), ga.loc(),
              "every call assigns the points by walking the current tree from self.root_cell",
              "get_points_assignement_to_areas does not return get_points_in_areas_recursive(self.root_cell, points) on every path%s%s: points can be "
              "assigned to areas of an earlier refinement state" % (" (also reads self.%s)" % sorted(reads_) if reads_ else "",
                                                                     " (stores self.%s)" % sorted(stores_) if stores_ else ""))
    ctx.check(not problems, "C07.D6", R.key_of(gp, "one-leaf-per-point"), gp.loc(),
              "each point is handed to the first child containing it and removed from the candidates of the others",
              "assignment of evaluation points to leaves: " + "; ".join(problems))
    # ------------------------------------------------------------------ D8 (shared with C14.D8)
    from .C14 import check_reentry_keeps_evolved_state
    check_reentry_keeps_evolved_state(prog, ctx, "C07.D8")


def check_coarsening_siblings(prog, ctx):
    cg = prog.func(ES + ".coarsen_grid")
    tm = Terms(cg.node, max_depth=0)

    def abstract(t):
        if isinstance(t, tuple):
            if len(t) == 2 and t[0] == "c":
                return ("c", "#")
            return tuple(abstract(x) for x in t)
        return t
    # role, not name: a local assigned a comparison in both arms of an `if self.version == k: ... else: ...`
    groups = {}
    k = 0
    for iff in walk_local(cg.node):
        if not (isinstance(iff, ast.If) and iff.orelse and any(isinstance(x, ast.Attribute) and x.attr == "version" for x in ast.walk(iff.test))):
            continue
        def arm(block):
            out = {}
            for st in block:
                if isinstance(st, ast.Assign) and len(st.targets) == 1 and isinstance(st.targets[0], ast.Name) and tm.term(st.value)[0] == "cmp":
                    out[st.targets[0].id] = st
            return out
        a1, a2 = arm(iff.body), arm(iff.orelse)
        for nm in sorted(set(a1) & set(a2)):
            k += 1
            groups["condition#%d" % k] = [a1[nm], a2[nm]]
    for name, sts in groups.items():
        if len(sts) < 2:
            continue
        shapes = {repr(abstract(tm.term(st.value))) for st in sts}
        ctx.check(len(shapes) == 1, "C07.D7", R.key_of(cg, "siblings:%s" % name), cg.loc(sts[-1]),
                  "the %d version branches compute `%s` from the same quantities (they differ in constants only)" % (len(sts), name),
                  "the coarsening versions compute `%s` from different quantities: %s" % (name, [src(st.value)[:70] for st in sts]))
    n_sib = sum(len(v) for v in groups.values())
    if n_sib < 2:
        # the version branches were merged into one parametrised loop: there are no siblings left to compare, nothing is decided here
        ctx.note("C07.D7", R.key_of(cg, "sibling-conditions"), cg.loc(), "the coarsening versions are no longer written as sibling branches: agreement not decided")
    # a coarsening round that is admitted by comparing the budget with the NUMBER of dimensions at the maximum level lowers every one of
    # them: the lowering loop over all dimensions has no early exit (the version-0 branch, which lowers one dimension per round and
    # compares nothing with a count, does break)
    c = cfg_of(cg)
    counts = set()
    for st in walk_local(cg.node):
        # role of the counter: a local incremented by 1 inside a loop under an equality test
        if isinstance(st, ast.AugAssign) and isinstance(st.op, ast.Add) and isinstance(st.target, ast.Name) and isinstance(st.value, ast.Constant) \
                and st.value.value == 1 and R.enclosing_loops(st):
            g_ = [g for (g, gn) in R.dominating_guards(cg, c.node_of(st), tm) if gn.kind == "test"]
            if any(x[0] == "cmp" and x[1] == "Eq" for x in g_):
                counts.add(st.target.id)
    for st in walk_local(cg.node):
        # ... or assigned from <list>.count(x) / sum(1 for ...) / len([... if ...])
        if isinstance(st, ast.Assign) and len(st.targets) == 1 and isinstance(st.targets[0], ast.Name) and isinstance(st.value, ast.Call):
            f_ = st.value.func
            if (isinstance(f_, ast.Attribute) and f_.attr == "count") or (isinstance(f_, ast.Name) and f_.id in ("sum", "len") and st.value.args
                                                                          and isinstance(st.value.args[0], (ast.GeneratorExp, ast.ListComp))):
                counts.add(st.targets[0].id)
    n_loops = 0
    for loop in [l for l in walk_local(cg.node) if isinstance(l, ast.For)]:
        lowers = [st for st in ast.walk(loop) if isinstance(st, ast.AugAssign) and isinstance(st.op, ast.Sub) and isinstance(st.target, ast.Subscript)
                  and isinstance(st.target.slice, ast.Name) and isinstance(loop.target, ast.Name) and st.target.slice.id == loop.target.id]
        if not lowers or tm.term(loop.iter) != ("call", ("n", "range"), (("a", ("n", cg.self_name), "dim"),), ()):
            continue
        # is this loop admitted by a test against a counter?  (guards of the loop itself, local flags resolved)
        gl = [g for (g, gn) in R.dominating_guards(cg, c.node_of(loop), tm) if gn.kind == "test"]
        names_ = {x[1] for g in gl for x in subterms(g) if x[0] == "n"}
        for _round in range(2):                               # flags such as do_coarsen: look into ALL their definitions
            for nm_ in list(names_):
                for b_ in tm.env.bindings.get(nm_, []):
                    if b_.kind == "assign" and b_.value is not None:
                        names_ |= {y.id for y in ast.walk(b_.value) if isinstance(y, ast.Name)}
        counted = bool(names_ & counts)
        if not counted:
            continue
        n_loops += 1
        exits = [x for x in ast.walk(loop) if isinstance(x, (ast.Break, ast.Return))]
        ctx.check(not exits, "C07.D7", R.key_of(cg, "counted-round-lowers-all#%d" % n_loops), cg.loc(loop),
                  "a round admitted by the count of maximal dimensions lowers all of them (no early exit)",
                  "the loop at line %d lowers the dimensions at the maximum level in a round that was admitted by comparing the budget with "
                  "their count, but leaves after the first one (`%s` at line %d): the remaining maximal dimensions keep their level and the "
                  "coarsened grids of neighbouring component grids collide" % (loop.lineno, src(exits[0]) if exits else "", exits[0].lineno if exits else 0))
    ctx.note("C07.D7", R.key_of(cg, "counted-rounds"), cg.loc(), "%d count-admitted lowering loop(s) analysed (counters: %s)" % (n_loops, sorted(counts)))


def _update_sources_nonneg(prog, ctx, ro):
    """The increment reaching RefinementObjectExtendSplit.update: third component of refine()'s result, forwarded by
    RefinementContainer.refine only when it is not None."""
    rf = prog.func(ro.qual + ".refine")
    tm = Terms(rf.node, max_depth=0)
    bad = []
    for r in R.return_paths(rf)[0]:
        v = r.ast.value
        if not (isinstance(v, ast.Tuple) and len(v.elts) == 3):
            bad.append("refine() does not return a 3-tuple")
            continue
        e = v.elts[2]
        if isinstance(e, ast.Constant):
            if not (e.value is None or (isinstance(e.value, int) and e.value >= 0)):
                bad.append("update information %r" % (e.value,))
        elif isinstance(e, ast.Name):
            for b in tm.env.bindings.get(e.id, []):
                if not (b.kind == "assign" and isinstance(b.value, ast.Constant) and (b.value.value is None or (isinstance(b.value.value, int) and b.value.value >= 0))):
                    bad.append("update information `%s = %s`" % (e.id, src(b.value) if b.value is not None else "?"))
        else:
            bad.append("update information %s" % src(e))
    cr = prog.func("RefinementContainer.RefinementContainer.refine")
    tmc = Terms(cr.node, max_depth=0)
    uvs = R.calls_in(cr.node, method="update_values")
    for x in uvs:
        g = [gg for (gg, gn) in R.dominating_guards(cr, R.cfg_node(cr, x), tmc) if gn.kind == "test"]
        a = tmc.term(x.args[0]) if x.args else ("?",)
        if ("cmp", "IsNot", a, ("c", "None")) not in g:
            bad.append("RefinementContainer.refine forwards the update information without the `is not None` guard")
    # other callers of update_values / update_objects on extend-split containers
    for fi in prog.functions.values():
        if fi.module.name in ("spatiallyAdaptiveExtendSplit",):
            for x in R.calls_in(fi.node):
                if isinstance(x.func, ast.Attribute) and x.func.attr in ("update_values", "update_objects", "update"):
                    if x.func.attr == "update" and not any(w in src(x.func.value) for w in ("area", "obj", "refine")):
                        continue
                    bad.append("%s calls %s" % (fi.qual, src(x)[:60]))
    return (not bad), "; ".join(bad)


def check_forward_test_uses_given_coarsening(prog, ctx):
    """C07.D7: in the counted coarsening loops of coarsen_grid (`while <counter> > 0`, the counter is decremented for every level that
    is taken away) the test "coarsening this far creates no forward problem" compares the bound built from self.lmax with the
    coarsening value the AREA carries -- the value the loop started from -- not with the running counter: after the first round the
    counter has shrunk and the same area would be judged against a different threshold in every round."""
    cg = prog.func(ES + ".coarsen_grid")
    ctx.touch(cg)
    tm = Terms(cg.node, max_depth=0)
    n = 0
    for loop in [x for x in walk_local(cg.node) if isinstance(x, ast.While)]:
        t = tm.term(loop.test)                     # `c > 0` and `0 < c` are the same normalised comparison
        if not (t[0] == "cmp" and t[1] == "Lt" and t[2] in (("c", "0"), ("c", "0.0")) and t[3][0] == "n"):
            continue
        counter = t[3][1]
        inside = [x for st in loop.body for x in ast.walk(st)]
        if not any(isinstance(x, ast.AugAssign) and isinstance(x.op, ast.Sub) and isinstance(x.target, ast.Name) and x.target.id == counter for x in inside):
            continue
        for cmp_ in [x for x in inside if isinstance(x, ast.Compare) and len(x.ops) == 1 and isinstance(x.ops[0], (ast.GtE, ast.Gt, ast.LtE, ast.Lt))]:
            sides = [cmp_.left, cmp_.comparators[0]]
            bound = [e for e in sides if any(isinstance(y, ast.Attribute) and y.attr == "lmax" for y in ast.walk(e))]
            if len(bound) != 1:
                continue
            other = sides[1] if bound[0] is sides[0] else sides[0]
            n += 1
            names = {y.id for y in ast.walk(other) if isinstance(y, ast.Name)}
            assigned_in_loop = {y.target.id for y in inside if isinstance(y, ast.AugAssign) and isinstance(y.target, ast.Name)} | \
                               {z.id for y in inside if isinstance(y, ast.Assign) for tg in y.targets for z in ast.walk(tg) if isinstance(z, ast.Name)}
            variant = sorted(names & assigned_in_loop)
            ctx.check(not variant, "C07.D7", R.key_of(cg, "forward-test-uses-given-coarsening#%d" % n), cg.loc(cmp_),
                      "the forward-problem test compares the lmax bound with a value that does not change during the coarsening rounds",
                      "`%s`: the forward-problem test compares the lmax bound with `%s`, which the loop changes in every round (it is the running "
                      "counter of levels still to take away), instead of the coarsening value the area was given" % (src(cmp_)[:90], ", ".join(variant)))
    ctx.floor("C07.D7.forward", n, 1, "forward-problem tests in the counted coarsening loops")
