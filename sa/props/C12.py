"""C12 -- function evaluation is cache-transparent and matches its analytic integral.

Decided (structural) clauses, see DESIGN.md section 3 / C12:
 D1 definite assignment on every path of the call path (Function.__call__, eval_vectorized and
    every override of eval / eval_vectorized / getAnalyticSolutionIntegral)
 D2 the batch/single dispatch `coordinates[<const>]` is dominated by an emptiness guard
 D3 every offered analytic integral returns a value on every normal path
 D4 cache key / value correspondence and reset
 D5 shape of the batch result / length check of the single result
 D6 scalar and vectorised siblings depend on the same instance parameters, and compare the coordinates with a parameter on
    the same side of the boundary (a point exactly on the boundary is treated alike)
 D8 the declared output length agrees with what eval returns: where eval returns a list / tuple / array literal of k entries on
    some path and output_length() (resolved along the MRO) returns a constant, the constant is k
 D7 a single-point evaluation hands out a fresh array, never the cached object itself (no mutable reference into the cache)
Not decided: numerical equality scalar vs vectorised, analytic vs numerical integral."""
import ast

from ..cfg import cfg_of, walk_local
from ..dataflow import DefiniteAssignment
from ..loader import AnalysisError, src
from ..terms import negate, terms_of, Terms, Env, show, subterms, contains
from .. import rules as R

EXPLANATION = ("Static analysis of sparseSpACE/Function.py: guard-correlated definite assignment on the CFG of the call "
               "path, dominance of an emptiness guard over the dispatch subscript, return-value-on-all-paths for every "
               "getAnalyticSolutionIntegral override, value-term equality of cache keys/values, and parameter-dependence "
               "agreement of eval/eval_vectorized siblings. Decides the structural clauses D1-D6 only, not numerical equality.")

BASE = "Function.Function"


def _emptiness_guard(term, pname):
    """True if `term` (a fact that holds) implies the parameter is non-empty."""
    p = ("n", pname)
    lens = [("call", ("n", "len"), (p,), ()), ("call", ("a", ("n", "np"), "size"), (p,), ()), ("a", p, "size"),
            ("call", ("n", "len"), (("copy", "list", p),), ())]
    if term in lens or term == p:
        return True                                   # truthiness of the length / of the sequence itself
    if term[0] == "cmp":
        op, l, r = term[1], term[2], term[3]
        zero, one = ("c", "0"), ("c", "1")
        for L in lens:
            if op == "NotEq" and {l, r} == {L, zero}:
                return True
            if op == "Lt" and l == zero and r == L:       # 0 < len
                return True
            if op == "LtE" and l == one and r == L:       # 1 <= len
                return True
    return False


def check_cache_discipline(prog, ctx, base, call, pname, rule="C12.D4"):
    """D4: every entry of the evaluation dictionary is stored under the very point it was evaluated at (single-point path: the tuple of
    the coordinates; batch path: zip(points, values)), the dictionary is emptied only by reset_dictionary, its size is the counter, and
    nobody outside Function writes it.  Shared with C13.D6: the driver's point count is this dictionary's size, so one evaluated point
    must be exactly one key on every path."""
    tm = Terms(call.node)
    env = tm.env
    key_ok_term = ("copy", "tuple", ("n", pname))
    n_store = 0
    def judge_zip(a, b):
        """zip(<the points of this call>, <the values evaluated for them>)"""
        okk = isinstance(a, ast.Name) and a.id == pname
        okv = False
        if isinstance(b, ast.Name):
            okv = True
            for bd in env.bindings.get(b.id, []):
                v = bd.value
                if bd.kind != "assign" or v is None:
                    okv = False
                    continue
                has_eval = any(isinstance(x, ast.Call) and isinstance(x.func, ast.Attribute)
                               and x.func.attr == "eval_vectorized"
                               and any(isinstance(y, ast.Name) and y.id == pname for a2 in x.args for y in ast.walk(a2))
                               for x in ast.walk(v))
                selfref = any(isinstance(y, ast.Name) and y.id == b.id for y in ast.walk(v))
                if not (has_eval or selfref):
                    okv = False
        return okk and okv
    for s in R.self_stores(call, "f_dict"):
        if s.kind == "elem":
            sub = s.stmt.targets[0]
            # the batch update written as a loop:  for point, value in zip(points, values): self.f_dict[point] = value
            loops_ = [l for l in R.enclosing_loops(s.stmt) if isinstance(l, ast.For)]
            if loops_ and isinstance(loops_[-1].iter, ast.Call) and isinstance(loops_[-1].iter.func, ast.Name) and loops_[-1].iter.func.id == "zip" \
                    and len(loops_[-1].iter.args) == 2 and isinstance(loops_[-1].target, ast.Tuple) and len(loops_[-1].target.elts) == 2 \
                    and all(isinstance(e, ast.Name) for e in loops_[-1].target.elts):
                kv, vv = loops_[-1].target.elts
                n_store += 1
                ok = isinstance(sub.slice, ast.Name) and sub.slice.id == kv.id and isinstance(s.value, ast.Name) and s.value.id == vv.id \
                    and judge_zip(*loops_[-1].iter.args)
                ctx.check(ok, rule, R.key_of(call, "batch-update"), call.loc(s.stmt),
                          "the batch update stores, for each point of this call, the value evaluated for it",
                          "batch cache update `%s` (in `for %s in %s`) does not pair the points of this call with the values evaluated for them"
                          % (src(s.stmt), src(loops_[-1].target), src(loops_[-1].iter)))
                continue
            n_store += 1
            k = tm.term(sub.slice)
            good_key = k == key_ok_term
            # value: every non-None definition of the stored name is a lookup/evaluation for the same key
            vname = s.value.id if isinstance(s.value, ast.Name) else None
            good_val = vname is not None
            defs = []
            if vname:
                # the stored name and the names it is copied from (x = y): all their definitions count
                todo, seen_n, all_bs = [vname], set(), []
                while todo:
                    nm_ = todo.pop()
                    if nm_ in seen_n or len(seen_n) > 4:
                        continue
                    seen_n.add(nm_)
                    for b in env.bindings.get(nm_, []):
                        if b.kind == "assign" and isinstance(b.value, ast.Name) and b.value.id not in (pname,) and b.value.id in env.bindings:
                            todo.append(b.value.id)
                        else:
                            all_bs.append(b)
                for b in all_bs:
                    if b.kind != "assign":
                        good_val = False
                        continue
                    v = b.value
                    if isinstance(v, ast.Constant) and v.value is None:
                        continue
                    # `x = [x]` scalar wrap happens after the store: allowed if it does not dominate the store
                    if isinstance(v, ast.List) and len(v.elts) == 1 and isinstance(v.elts[0], ast.Name) and v.elts[0].id == vname:
                        wrapn = R.cfg_node(call, b.stmt)
                        if wrapn.idx in cfg_of(call).reachable_after(wrapn) or \
                                R.cfg_node(call, s.stmt).idx in cfg_of(call).reachable_after(wrapn):
                            good_val = False
                        continue
                    if isinstance(v, ast.Call) and v.args:
                        a0 = tm.term(v.args[0])
                        fn = v.func
                        fname = fn.attr if isinstance(fn, ast.Attribute) else None
                        if fname in ("get", "eval") and a0 in (k, ("n", pname)):
                            defs.append(src(v))
                            continue
                    good_val = False
                    defs.append("!" + src(v))
            ctx.check(good_key and good_val, rule, R.key_of(call, "store:f_dict[%s]" % show(k)), call.loc(s.stmt),
                      "cache store keyed by the call's own point, value looked up / evaluated for that point",
                      "cache store `%s`: key %s is not tuple(%s) of this call or the stored value is not the one "
                      "looked up / evaluated for that key (defs: %s)" % (src(s.stmt), show(k), pname, defs),
                      cache_key=show(k), value_defs=defs)
        elif s.kind == "mutator" and s.call.func.attr == "update":
            n_store += 1
            arg = s.call.args[0] if s.call.args else None
            ok = False
            detail = ""
            if isinstance(arg, ast.Call) and isinstance(arg.func, ast.Name) and arg.func.id == "zip" and len(arg.args) == 2:
                a, b = arg.args
                okk = isinstance(a, ast.Name) and a.id == pname
                okv = False
                if isinstance(b, ast.Name):
                    okv = True
                    for bd in env.bindings.get(b.id, []):
                        v = bd.value
                        if bd.kind != "assign" or v is None:
                            okv = False
                            continue
                        has_eval = any(isinstance(x, ast.Call) and isinstance(x.func, ast.Attribute)
                                       and x.func.attr == "eval_vectorized"
                                       and any(isinstance(y, ast.Name) and y.id == pname for a2 in x.args for y in ast.walk(a2))
                                       for x in ast.walk(v))
                        selfref = any(isinstance(y, ast.Name) and y.id == b.id for y in ast.walk(v))
                        if not (has_eval or selfref):
                            okv = False
                ok = okk and okv
                detail = "zip(%s, %s)" % (src(a), src(b))
            ctx.check(ok, rule, R.key_of(call, "batch-update"), call.loc(s.stmt),
                      "batch cache update zips the evaluated points with their own rows (%s)" % detail,
                      "batch cache update `%s` does not zip the points of this call with the values evaluated for them" % src(s.stmt))
        else:
            n_store += 1
            ctx.violation(rule, R.key_of(call, "store:%s" % s.kind), call.loc(s.stmt),
                          "unrecognised write to the evaluation cache in __call__: %s" % src(s.stmt))
    ctx.floor(rule, n_store, 3, "cache stores in Function.__call__")
    # reset / counter
    reset = prog.func(BASE + ".reset_dictionary")
    size = prog.func(BASE + ".get_f_dict_size")
    ctx.touch(reset, size)
    rs = [s for s in R.self_stores(reset, "f_dict") if s.kind == "plain"]
    ok = bool(rs) and all(isinstance(s.value, ast.Dict) and not s.value.keys or
                          (isinstance(s.value, ast.Call) and isinstance(s.value.func, ast.Name) and s.value.func.id == "dict"
                           and not s.value.args and not s.value.keywords) for s in rs)
    withv, bare, fall = R.return_paths(reset)
    c_reset = cfg_of(reset)
    on_all = bool(rs) and all(c_reset.post_dominates(R.cfg_node(reset, rs[-1].stmt), c_reset.entry) for _ in [0])
    ctx.check(ok and on_all, rule, R.key_of(reset, "reset:f_dict"), reset.loc(),
              "reset_dictionary re-assigns f_dict to an empty dict on every path",
              "reset_dictionary does not plainly re-assign f_dict to an empty dict on every path")
    rt = [p for p in R.return_paths(size)[0]]
    tsz = terms_of(size)
    ok = len(rt) >= 1 and all(tsz.term(p.ast.value) == ("call", ("n", "len"), (("a", ("n", "self"), "f_dict"),), ()) for p in rt)
    ctx.check(ok, rule, R.key_of(size, "counter"), size.loc(),
              "the evaluation counter is the size of the dictionary that reset_dictionary empties",
              "get_f_dict_size no longer returns len(self.f_dict)")
    # who else writes the cache state of a Function object
    writers = set()
    fsubs = {c.qual for c in prog.all_subclasses(base)}
    allowed = {BASE + ".__init__", BASE + ".reset_dictionary", BASE + ".__call__", BASE + ".deactivate_caching"}
    for fi in prog.functions.values():
        for s in R.attribute_stores(fi.node):
            if s.attr not in ("f_dict", "old_f_dict", "do_cache"):
                continue
            is_self = isinstance(s.base, ast.Name) and s.base.id == fi.self_name
            if is_self and (fi.cls is None or fi.cls.qual not in fsubs):
                continue        # an unrelated class with an attribute of the same name
            if is_self and fi.qual in allowed:
                continue
            if is_self and s.attr == "do_cache" and fi.name == "__init__":
                continue
            writers.add((fi.qual, s.attr, fi.loc(s.stmt)))
    for (q, a, l) in sorted(writers):
        ctx.violation(rule, "%s::outside-store:%s" % (q, a), l,
                      "the evaluation cache attribute %s of a Function is written outside the cache's own methods" % a)
    if not writers:
        ctx.ok(rule, "package::no-outside-writer", "sparseSpACE/*",
               "f_dict / old_f_dict / do_cache of Function objects are written only by %s" % sorted(allowed))



def run(prog, ctx):
    base = prog.cls(BASE)
    call = prog.func(BASE + ".__call__")
    ctx.touch(call)

    # ---------------------------------------------------------------- D1
    targets = [call, prog.func(BASE + ".eval_vectorized")]
    for name in ("eval", "eval_vectorized", "getAnalyticSolutionIntegral"):
        for f in prog.overrides(base, name):
            if f not in targets:
                targets.append(f)
    n_da = 0
    for f in targets:
        ctx.touch(f)
        da = DefiniteAssignment(prog, f)
        bad = {}
        for (name, ld, node) in da.possibly_undefined():
            bad.setdefault(name, ld)
        n_da += 1
        if bad:
            for name, ld in sorted(bad.items()):
                ctx.violation("C12.D1", R.key_of(f, "local:" + name), f.loc(ld),
                              "local variable '%s' is read on a path on which it was never assigned (use: %s)"
                              % (name, src(R.stmt_of(ld))), variable=name)
        else:
            ctx.ok("C12.D1", R.key_of(f, "all-locals"), f.loc(), "every local read is definitely assigned on every feasible path")
    ctx.floor("C12.D1", n_da, 40, "functions on the evaluation path")

    # ---------------------------------------------------------------- D2
    params = call.params
    if len(params) < 2:
        raise AnalysisError("Function.__call__ lost its coordinates parameter")
    pname = params[1]
    c = cfg_of(call)
    subs = []
    for n in walk_local(call.node):
        if isinstance(n, ast.Subscript) and isinstance(n.ctx, ast.Load) and isinstance(n.value, ast.Name) \
                and n.value.id == pname and isinstance(n.slice, ast.Constant) and isinstance(n.slice.value, int):
            subs.append(n)
    for si, s in enumerate(subs):
        node = R.cfg_node(call, s)
        guards = R.dominating_guards(call, node)
        ok = any(_emptiness_guard(t, pname) for (t, _n) in guards)
        ctx.check(ok, "C12.D2", R.key_of(call, "index#%d:%s" % (si, src(s))), call.loc(s),
                  "constant index into the batch is dominated by a non-emptiness guard",
                  "`%s` is evaluated without a dominating emptiness test of `%s`: an empty batch raises IndexError" % (src(s), pname),
                  guards=[show(t) for (t, _n) in guards][:6])
    # an empty batch must return something shaped (0, output_length()): checked with D5 below

    # ---------------------------------------------------------------- D3
    overs = prog.overrides(base, "getAnalyticSolutionIntegral")
    n_over = 0
    for f in overs:
        ctx.touch(f)
        n_over += 1
        if R.is_stub_body(f.node):
            ctx.ok("C12.D3", R.key_of(f, "stub"), f.loc(), "declared stub: offers no analytic integral")
            continue
        withv, bare, fall = R.return_paths(f)
        badn = bare + fall
        if badn:
            ctx.violation("C12.D3", R.key_of(f, "returns-value"), f.loc(badn[0].ast if badn[0].ast is not None else f.node),
                          "a normal path leaves the analytic integral without returning its value (%d returning, %d not); "
                          "last statement on the offending path: %s"
                          % (len(withv), len(badn), src(badn[0].ast) if badn[0].ast is not None else "<entry>"))
        else:
            ctx.ok("C12.D3", R.key_of(f, "returns-value"), f.loc(), "%d return paths, all with a value" % len(withv))
    ctx.floor("C12.D3", n_over, 25, "overrides of getAnalyticSolutionIntegral")
    check_dimension_index_spaces(prog, ctx, base)
    check_vectorised_buffers(prog, ctx, base)
    check_arguments_not_modified(prog, ctx, base)

    # ---------------------------------------------------------------- D4
    check_cache_discipline(prog, ctx, base, call, pname, "C12.D4")
    tm = Terms(call.node)
    # ---------------------------------------------------------------- D5
    ol = ("call", ("a", ("n", "self"), "output_length"), (), ())
    lenp = ("call", ("n", "len"), (("n", pname),), ())
    reshapes = [n for n in R.calls_in(call.node, method="reshape")]
    good = False
    for r in reshapes:
        if r.args and isinstance(r.args[0], ast.Tuple):
            t = tm.term(r.args[0])
            if t in (("tuple", lenp, ol), ("tuple", ("c", "-1"), ol)):
                good = True
    ctx.check(good, "C12.D5", R.key_of(call, "batch-shape"), call.loc(reshapes[0]) if reshapes else call.loc(),
              "batch result reshaped to (len(points), output_length())",
              "the batch result is not reshaped to (len(%s), self.output_length())" % pname)
    # every return of the batch path (neither the empty batch nor a single point) hands out an array that was brought into that shape:
    # a shortcut that returns cached rows as they are has the shape of whatever was cached (raw scalars after single-point calls)
    cc = cfg_of(call)
    tm0 = Terms(call.node, max_depth=0)
    scal = ("call", ("a", ("n", "np"), "isscalar"), (("s", ("n", pname), ("c", "0")),), ())

    def shaped(e, depth=0):
        if depth > 3 or e is None:
            return False
        if isinstance(e, ast.Call):
            f_ = e.func
            nm_ = f_.attr if isinstance(f_, ast.Attribute) else (f_.id if isinstance(f_, ast.Name) else None)
            if nm_ == "reshape":
                shp = e.args[-1] if e.args else None
                if len(e.args) >= 2 and not (isinstance(f_, ast.Attribute) and isinstance(f_.value, ast.Name) and f_.value.id in ("np", "numpy")):
                    shp = ast.Tuple(elts=list(e.args), ctx=ast.Load())
                t = tm0.term(shp) if shp is not None else None
                cn_ = cc.node_containing(e)
                if t is not None and cn_ is not None and cn_.ast is not None:
                    t = R.resolve_locals(call, t, cn_, tm0)
                return t in (("tuple", lenp, ol), ("tuple", ("c", "-1"), ol))
        if isinstance(e, ast.Name):
            b = R.reaching_unique_def(call, e.id, e)
            return b is not None and b.kind == "assign" and shaped(b.value, depth + 1)
        return False
    nb = 0
    for rn in [n for n in cc.nodes if n.kind == "stmt" and isinstance(n.ast, ast.Return) and n.idx in cc.reachable()]:
        facts = [g for (g, gn) in R.dominating_guards(call, rn, tm0) if gn.kind == "test"]
        empty_facts = (("cmp", "Eq", ("c", "0"), lenp), ("cmp", "Eq", lenp, ("c", "0")), ("not", lenp), ("not", ("n", pname)),
                       ("cmp", "LtE", lenp, ("c", "0")), ("cmp", "Lt", lenp, ("c", "1")))
        if scal in facts or any(g in empty_facts for g in facts):
            continue
        if not any(g == ("not", scal) or g == negate(scal) for g in facts):
            continue                          # not clearly on the batch side of the dispatch: judged by the rules above
        nb += 1
        ctx.check(shaped(rn.ast.value), "C12.D5", R.key_of(call, "batch-return-shaped#%d" % nb), call.loc(rn.ast),
                  "the batch path returns the array that was reshaped to (len(points), output_length())",
                  "`%s` on the batch path returns an array that was not brought into the shape (len(%s), self.output_length()): rows cached by "
                  "single-point calls are raw scalars, the result has shape (n,) instead of (n, 1) or is ragged" % (src(rn.ast)[:90], pname))
    asserts = [n for n in walk_local(call.node) if isinstance(n, ast.Assert)]
    good = False
    for a in asserts:
        t = tm.term(a.test)
        if t[0] == "cmp" and t[1] == "Eq" and ol in (t[2], t[3]):
            other = t[3] if t[2] == ol else t[2]
            if other[0] == "call" and other[1] == ("n", "len"):
                good = True
    ctx.check(good, "C12.D5", R.key_of(call, "single-length"), call.loc(asserts[0]) if asserts else call.loc(),
              "single result is asserted to have output_length() entries",
              "the single-point result is no longer checked against self.output_length()")
    # the empty batch (D2's guard) must return an array shaped (0, output_length())
    for s in subs[:1]:
        node = R.cfg_node(call, s)
        for (t, tn) in R.dominating_guards(call, node):
            if _emptiness_guard(t, pname):
                # the other edge of that test is the empty-batch path: every return on it must carry the shape
                lab_nonempty = [lab for lab in (True, False)
                                if any(l == lab for (_s2, l) in tn.succ) and c.edge_dominates(tn, lab, node)]
                empty_lab = not lab_nonempty[0]
                starts = [s2 for (s2, l) in tn.succ if l == empty_lab]
                rets = []
                seen = set()
                work = list(starts)
                blocked = {x.idx for (x, l) in tn.succ if l == lab_nonempty[0]}
                while work:
                    x = work.pop()
                    if x.idx in seen or x.idx in blocked:
                        continue
                    seen.add(x.idx)
                    if x.kind == "stmt" and isinstance(x.ast, ast.Return):
                        rets.append(x)
                        continue
                    work.extend(s3 for (s3, _l) in x.succ)
                okr = bool(rets)
                for r in rets:
                    v = r.ast.value
                    tv = tm.term(v) if v is not None else None
                    shp = ("tuple", ("c", "0"), ol)
                    if tv is None or not contains(tv, shp):
                        okr = False
                ctx.check(okr, "C12.D5", R.key_of(call, "empty-shape"), call.loc(tn.ast),
                          "the empty batch returns an array shaped (0, output_length())",
                          "the empty-batch path does not return an array shaped (0, self.output_length())")
                break

    # ---------------------------------------------------------------- D6
    pairs = 0
    for ci in prog.all_subclasses(base, include_self=False):
        if "eval" in ci.methods and "eval_vectorized" in ci.methods:
            pairs += 1
            fe, fv = ci.methods["eval"], ci.methods["eval_vectorized"]
            ctx.touch(fe, fv)
            init = prog.lookup_method(ci, "__init__")
            derived = _derived_sources(init) if init is not None and init.cls is not base else {}
            de = _param_deps(fe, derived)
            dv = _param_deps(fv, derived)
            ctx.check(de == dv, "C12.D6", "%s::eval~eval_vectorized" % ci.qual, fv.loc(),
                      "scalar and vectorised bodies depend on the same instance parameters %s" % sorted(de),
                      "eval depends on instance parameters %s but eval_vectorized on %s: they cannot agree for every parameter choice"
                      % (sorted(de), sorted(dv)), scalar=sorted(de), vectorised=sorted(dv))
            # boundary side of comparisons between the coordinates and an instance parameter
            se, sv = _boundary_sides(fe), _boundary_sides(fv)
            common = set(se) & set(sv)
            bad = [a for a in sorted(common) if se[a] != sv[a]]
            if common:
                ctx.check(not bad, "C12.D6", "%s::eval~eval_vectorized:boundary" % ci.qual, fv.loc(),
                          "both bodies put a point exactly on the %s boundary on the same side" % sorted(common),
                          "eval and eval_vectorized compare the coordinates with self.%s on different sides of the boundary (%s vs %s): "
                          "a point exactly on it is evaluated differently by the scalar and the vectorised path"
                          % (bad[0] if bad else "?", se.get(bad[0]) if bad else "", sv.get(bad[0]) if bad else ""))
    ctx.floor("C12.D6", pairs, 4, "classes overriding both eval and eval_vectorized")

    # ---------------------------------------------------------------- D8
    check_output_length(prog, ctx, base)

    # ---------------------------------------------------------------- D7
    tm7 = Terms(call.node, max_depth=0)
    rets = [r for r in R.return_paths(call)[0]]
    single_rets = []
    for r in rets:
        guards = [g for (g, gn) in R.dominating_guards(call, r, tm7) if gn.kind == "test"]
        if any(g[0] == "call" and g[1] == ("a", ("n", "np"), "isscalar") for g in guards):
            single_rets.append(r)
    ctx.floor("C12.D7", len(single_rets), 1, "returns of the single-point path")
    for k, r in enumerate(single_rets):
        t = tm7.term(r.ast.value)
        fresh = t[0] == "call" and (t[1] in (("a", ("n", "np"), "array"), ("a", ("n", "np"), "copy")) or
                                    (t[1][0] == "a" and t[1][2] == "copy")) and dict(t[3]).get("copy") != ("c", "False")
        ctx.check(fresh, "C12.D7", R.key_of(call, "single-result-is-a-copy#%d" % k), call.loc(r.ast),
                  "the single-point result is a fresh array (np.array copies)",
                  "`%s` can hand out the cached object itself: a caller that uses the result in place (v *= w) rewrites the cache and later "
                  "evaluations of the same point return the modified value" % src(r.ast))


def _boundary_sides(fi):
    """param attr -> 'closed-above' if the comparison of the coordinates with self.<attr> treats equality like 'greater'
    (x >= b / x < b), 'closed-below' if it treats equality like 'smaller' (x <= b / x > b)."""
    out = {}
    sn = fi.self_name
    coord = fi.params[1] if len(fi.params) > 1 else None
    for n in ast.walk(fi.node):
        if not (isinstance(n, ast.Compare) and len(n.ops) == 1):
            continue
        l, r = n.left, n.comparators[0]

        def mentions_coord(e):
            return any(isinstance(x, ast.Name) and x.id == coord for x in ast.walk(e))

        def param_of(e):
            for x in ast.walk(e):
                a = R.self_attr(x, sn)
                if a is not None:
                    return a
            return None
        op = type(n.ops[0]).__name__
        if mentions_coord(l) and param_of(r) and not mentions_coord(r):
            a = param_of(r)
        elif mentions_coord(r) and param_of(l) and not mentions_coord(l):
            a = param_of(l)
            op = {"Lt": "Gt", "Gt": "Lt", "LtE": "GtE", "GtE": "LtE"}.get(op, op)
        else:
            continue
        if op in ("GtE", "Lt"):
            side = "equality counts as above (x >= b / x < b)"
        elif op in ("LtE", "Gt"):
            side = "equality counts as below (x <= b / x > b)"
        else:
            continue
        if a in out and out[a] != side:
            out[a] = "mixed"
        else:
            out[a] = side
    return out


def check_output_length(prog, ctx, base):
    n = 0
    for ci in prog.all_subclasses(base, include_self=False):
        ev = ci.methods.get("eval")
        if ev is None:
            continue
        ol = prog.lookup_method(ci, "output_length")
        if ol is None:
            continue
        consts = set()
        allconst = True
        for r in R.return_paths(ol)[0]:
            v = r.ast.value
            if isinstance(v, ast.Constant) and isinstance(v.value, int):
                consts.add(v.value)
            else:
                allconst = False
        if not allconst or len(consts) != 1:
            continue            # computed output length (wrappers): not decidable here
        declared = consts.pop()
        lens = set()
        for r in R.return_paths(ev)[0]:
            v = r.ast.value
            if isinstance(v, ast.Call) and isinstance(v.func, ast.Attribute) and v.func.attr in ("array", "asarray") and v.args:
                v = v.args[0]
            if isinstance(v, (ast.List, ast.Tuple)) and not any(isinstance(e, ast.Starred) for e in v.elts):
                lens.add(len(v.elts))
        if not lens:
            continue
        n += 1
        ctx.touch(ev, ol)
        ctx.check(lens == {declared}, "C12.D8", "%s::output-length" % ci.qual, ev.loc(),
                  "eval returns %s entries, output_length() declares %d" % (sorted(lens), declared),
                  "%s.eval returns %s values per point but output_length() (defined in %s) declares %d: every evaluation through "
                  "__call__ fails its length assertion / the batch reshape" % (ci.qual, sorted(lens), ol.cls.qual, declared))
    ctx.floor("C12.D8", n, 1, "function classes whose eval returns a literal sequence")


IGNORED_ATTRS = {"check_vectorization", "debug", "log", "eval", "eval_vectorized", "output_length", "f_dict", "old_f_dict",
                 "do_cache"}


def _derived_sources(init):
    """attr -> set of __init__ parameter names (or '@attr' self-sources) it is computed from."""
    out = {}
    params = set(init.params[1:])
    sn = init.self_name
    for s in R.attribute_stores(init.node):
        if isinstance(s.base, ast.Name) and s.base.id == sn and s.kind == "plain" and s.value is not None:
            deps = set()
            for n in ast.walk(s.value):
                if isinstance(n, ast.Name) and n.id in params:
                    deps.add(n.id)
                a = R.self_attr(n, sn)
                if a is not None:
                    deps |= out.get(a, {"@" + a})
            out[s.attr] = deps if deps else {"@const:" + s.attr}
    return out


def _param_deps(fi, derived):
    deps = set()
    for a in R.attr_reads(fi.node, fi.self_name):
        if a in IGNORED_ATTRS:
            continue
        src_ = derived.get(a, {"@" + a})
        deps |= {d for d in src_ if not d.startswith("@const:")}
    return deps


def check_dimension_index_spaces(prog, ctx, base):
    """D10: an analytic integral that works on a SUBSET of the dimensions (a list `S = [d for d in range(self.dim) if ...]`) walks it
    with a position i and an element d = S[i].  Sequences indexed by dimension (the box ends, constructor parameters stored on self)
    take d; only sequences built per position of S (e.g. the 0/1 corner choice) take i."""
    n = 0
    for fi in prog.overrides(base, "getAnalyticSolutionIntegral"):
        subsets = {}
        for st in walk_local(fi.node):
            if isinstance(st, ast.Assign) and len(st.targets) == 1 and isinstance(st.targets[0], ast.Name) and isinstance(st.value, ast.ListComp) \
                    and len(st.value.generators) == 1 and st.value.generators[0].ifs \
                    and isinstance(st.value.generators[0].iter, ast.Call) and isinstance(st.value.generators[0].iter.func, ast.Name) \
                    and st.value.generators[0].iter.func.id == "range" and isinstance(st.value.elt, ast.Name) \
                    and isinstance(st.value.generators[0].target, ast.Name) and st.value.elt.id == st.value.generators[0].target.id:
                subsets[st.targets[0].id] = st
        if not subsets:
            continue
        ctx.touch(fi)
        dim_indexed_params = set(fi.params[1:])
        for loop in [l for l in walk_local(fi.node) if isinstance(l, ast.For)]:
            pos = None
            it = loop.iter
            # for i in range(len(S))   /   for i, d in enumerate(S)
            if isinstance(it, ast.Call) and isinstance(it.func, ast.Name) and it.func.id == "range" and len(it.args) == 1 \
                    and isinstance(it.args[0], ast.Call) and isinstance(it.args[0].func, ast.Name) and it.args[0].func.id == "len" \
                    and it.args[0].args and isinstance(it.args[0].args[0], ast.Name) and it.args[0].args[0].id in subsets and isinstance(loop.target, ast.Name):
                pos = loop.target.id
            elif isinstance(it, ast.Call) and isinstance(it.func, ast.Name) and it.func.id == "enumerate" and it.args and isinstance(it.args[0], ast.Name) \
                    and it.args[0].id in subsets and isinstance(loop.target, ast.Tuple) and isinstance(loop.target.elts[0], ast.Name):
                pos = loop.target.elts[0].id
            if pos is None:
                continue
            n += 1
            bad = []
            for x in ast.walk(loop):
                if isinstance(x, ast.Subscript) and isinstance(x.slice, ast.Name) and x.slice.id == pos:
                    b_ = x.value
                    if (isinstance(b_, ast.Name) and b_.id in dim_indexed_params) or R.self_attr(b_, fi.self_name) is not None:
                        bad.append(x)
            ctx.check(not bad, "C12.D10", R.key_of(fi, "subset-position-vs-dimension#%d" % n), fi.loc(bad[0]) if bad else fi.loc(loop),
                      "inside the walk over the dimension subset, per-dimension sequences are indexed by the dimension, not by the position",
                      "`%s` indexes a per-dimension sequence with `%s`, the POSITION in the filtered dimension list, instead of the dimension "
                      "stored at that position: wrong as soon as a filtered-out dimension precedes it" % (src(bad[0]) if bad else "", pos))
        # cardinalities: a sign factor (-1) ** E standing next to a product over the subset S (one factor per integrated dimension) counts
        # the dimensions of S -- not all dimensions, not another subset
        for st in walk_local(fi.node):
            if not isinstance(st, ast.Assign):
                continue
            pows = [x for x in ast.walk(st.value) if isinstance(x, ast.BinOp) and isinstance(x.op, ast.Pow)
                    and ((isinstance(x.left, ast.UnaryOp) and isinstance(x.left.op, ast.USub) and isinstance(x.left.operand, ast.Constant) and x.left.operand.value == 1)
                         or (isinstance(x.left, ast.Constant) and x.left.value == -1))]
            prods = [x for x in ast.walk(st.value) if isinstance(x, ast.Call) and isinstance(x.func, ast.Attribute) and x.func.attr == "prod" and x.args
                     and isinstance(x.args[0], (ast.ListComp, ast.GeneratorExp)) and isinstance(x.args[0].generators[0].iter, ast.Name)
                     and x.args[0].generators[0].iter.id in subsets]
            if not pows or not prods:
                continue
            S = prods[0].args[0].generators[0].iter.id
            for pw in pows:
                n += 1
                counted = {y.args[0].id for y in ast.walk(pw.right) if isinstance(y, ast.Call) and isinstance(y.func, ast.Name) and y.func.id == "len"
                           and y.args and isinstance(y.args[0], ast.Name)}
                others = counted - {S}
                whole = [y for y in ast.walk(pw.right) if isinstance(y, ast.Attribute) and y.attr == "dim"]
                ok = S in counted and not others and not whole
                ctx.check(ok, "C12.D10", R.key_of(fi, "sign-counts-the-subset#%d" % n), fi.loc(pw),
                          "the sign exponent `%s` counts the dimensions of `%s`, the subset the accompanying product runs over" % (src(pw.right)[:50], S),
                          "the sign factor `%s` stands next to a product over `%s` (one factor per integrated dimension) but its exponent counts %s: wrong as "
                          "soon as the subset is smaller than that" % (src(pw)[:60], S, "all dimensions" if whole else (sorted(others) or "nothing of it")))
    ctx.note("C12.D10", "Function::dimension-subsets", "sparseSpACE/Function.py", "%d walks over filtered dimension lists / subset cardinalities analysed" % n)


def check_vectorised_buffers(prog, ctx, base):
    """D9: the result buffer of a vectorised evaluation never inherits the dtype of the coordinates (an all-integer batch would truncate
    the values that the scalar implementation returns as floats)."""
    n = 0
    for fi in prog.overrides(base, "eval_vectorized"):
        cp = fi.params[1] if len(fi.params) > 1 else None
        for x in R.calls_in(fi.node):
            f_ = x.func
            if isinstance(f_, ast.Attribute) and f_.attr in ("zeros_like", "ones_like", "empty_like", "full_like") and x.args:
                n += 1
                ctx.touch(fi)
                from_coords = any(isinstance(y, ast.Name) and y.id == cp for y in ast.walk(x.args[0]))
                kw = {k.arg: k.value for k in x.keywords}
                floaty = "dtype" in kw and not (isinstance(kw["dtype"], ast.Name) and kw["dtype"].id == "int")
                ctx.check(not from_coords or floaty, "C12.D9", R.key_of(fi, "buffer-dtype:%s" % src(x)[:40]), fi.loc(x),
                          "the result buffer has its own (float) dtype",
                          "`%s` allocates the result buffer with the dtype of the coordinates: for a batch of integer points the values are "
                          "truncated, while the scalar implementation returns floats" % src(x))
            if isinstance(f_, ast.Attribute) and f_.attr in ("zeros", "ones", "empty", "full"):
                kw = {k.arg: k.value for k in x.keywords}
                if "dtype" in kw and isinstance(kw["dtype"], ast.Name) and kw["dtype"].id in ("int", "bool"):
                    n += 1
                    ctx.touch(fi)
                    ctx.violation("C12.D9", R.key_of(fi, "buffer-dtype:%s" % src(x)[:40]), fi.loc(x),
                                  "`%s` allocates an integer result buffer in a vectorised evaluation" % src(x))
    ctx.note("C12.D9", "Function::vectorised-buffers", "sparseSpACE/Function.py", "%d dtype-inheriting / typed buffer allocations analysed" % n)


def check_arguments_not_modified(prog, ctx, base):
    """C12.D11: no evaluation or analytic-integral routine of a test function modifies, in place, a sequence it receives (coordinates,
    box bounds) or a numpy view of it (`np.asarray(end)` is the caller's array when the caller passed one): the caller's box would be
    clipped / its integer bounds truncated, and the next use of the same array (FunctionCompose hands one box to every part) is wrong."""
    n = 0
    for c in prog.all_subclasses(base):
        for name in ("eval", "eval_vectorized", "getAnalyticSolutionIntegral", "__call__"):
            f = c.methods.get(name)
            if f is None:
                continue
            n += 1
            ctx.touch(f)
            mods = R.inplace_modifications_of_parameters(f)
            ctx.check(not mods, "C12.D11", R.key_of(f, "arguments-not-modified"), f.loc(mods[0][0]) if mods else f.loc(),
                      "%s.%s does not modify the sequences it receives" % (c.name, name),
                      "%s.%s modifies its argument `%s` in place (`%s`, %s): `%s` may be the caller's own array" %
                      (c.name, name, mods[0][2] if mods else "", src(mods[0][0])[:80] if mods else "", mods[0][3] if mods else "", mods[0][1] if mods else ""))
    ctx.floor("C12.D11", n, 40, "evaluation / analytic-integral routines of the test functions")
