"""C10 -- hierarchical bases interpolate: surpluses reproduce every nodal value.

Decided structural clauses:
 D1 Lagrange cardinality: evaluation and normalisation multiply over ALL knots i != index with one and the same filter
    (value 0 at every other knot, 1 at the own knot); the restricted variant returns the base value inside its support, 0 outside
 D2 collocation orientation and write-back: matrix[i, j] = basis_j(x_i); the right-hand side is read from and the solution is
    written back to the same pole positions; both solve branches solve that system
 D3 branch consistency: Q, R are defined exactly on the paths that use them (guard-correlated definite assignment)
 D4 surplus storage key: integrate stores and interpolate / interpolate_grid / get_surplusses look up under the same key term
 D5 the B-spline derivative recursions are the formal derivatives of the value recursion (product rule, checked as a polynomial
    identity with the recursive calls as atoms): first derivative = d/dx value, second derivative = d/dx first derivative
 D6 surpluses are per-grid state: no class-level mutable `surplus_values` shared by all grid objects; every concrete basis grid
    creates its own dictionary in its constructor
Not decided: unique solvability, reproduction of nodal values / polynomials, derivative and integral agreement (numerical)."""
import ast

from ..cfg import cfg_of, walk_local
from ..dataflow import DefiniteAssignment
from ..loader import AnalysisError, src
from ..terms import Terms, terms_of, show, subterms
from .. import rules as R

EXPLANATION = ("Static analysis of BasisFunctions.Lagrange*, Hierarchization.HierarchizationLSG.hierarchize_poles_for_dim and the "
               "surplus dictionaries of BasisGrid / GlobalBasisGrid: sibling agreement of the filtered product loops, index dataflow "
               "of the collocation matrix and the pole read/write-back, guard-correlated definite assignment of the QR factors, and "
               "value-term equality of storage keys.")

BF = "BasisFunctions."
HZ = "Hierarchization.HierarchizationLSG.hierarchize_poles_for_dim"


def _replace_term(t, old, new):
    if t == old:
        return new
    if isinstance(t, tuple):
        return tuple(_replace_term(x, old, new) for x in t)
    return t


def _product_loop(fi, target_attr=None, target_local=None):
    """Describe the filtered product loop of a Lagrange routine: (iter term, filter terms, factor term) or None."""
    tm = Terms(fi.node, max_depth=0)
    c = cfg_of(fi)
    for loop in [l for l in walk_local(fi.node) if isinstance(l, ast.For)]:
        for st in ast.walk(loop):
            if not (isinstance(st, ast.AugAssign) and isinstance(st.op, ast.Mult)):
                continue
            if target_attr is not None and R.self_attr(st.target, fi.self_name) != target_attr:
                continue
            if target_local is not None and not isinstance(st.target, ast.Name):
                continue
            it = tm.term(loop.iter)
            sn = c.node_of(st)
            guards = sorted((g for (g, gn) in R.dominating_guards(fi, sn, tm) if gn.kind == "test" and c.in_loop(gn, loop)), key=repr)
            ivar = None
            if isinstance(loop.target, ast.Tuple) and isinstance(loop.target.elts[0], ast.Name):
                ivar = loop.target.elts[0].id
            elif isinstance(loop.target, ast.Name):
                ivar = loop.target.id
            escapes = [n for n in ast.walk(loop) if isinstance(n, (ast.Break, ast.Return))]
            return {"iter": it, "filters": guards, "factor": tm.term(st.value), "ivar": ivar, "stmt": st, "escapes": escapes, "loop": loop}
    return None


def run(prog, ctx):
    # ------------------------------------------------------------------ D9: the Gauss rule stored for the basis integrals is exact for degree p
    from ..gauss import check_sites
    ctx.floor("C10.D9", check_sites(prog, ctx, "C10.D9", "Grid", "basis"), 3, "Gauss rules stored for basis integrals of degree p")
    # ------------------------------------------------------------------ D1
    init = prog.func(BF + "LagrangeBasis.__init__")
    call = prog.func(BF + "LagrangeBasis.__call__")
    minit = prog.func(BF + "LagrangeBasisRestrictedModified.__init__")
    ctx.touch(init, call, minit)
    knots = ("a", ("n", "self"), "knots")
    idx = ("a", ("n", "self"), "index")
    sites = []
    for fi, kind in ((init, "norm"), (call, "eval"), (minit, "norm")):
        pl = _product_loop(fi, target_attr="factor") if kind == "norm" else _product_loop(fi, target_local=True)
        key = R.key_of(fi, "filtered-product")
        if pl is None:
            ctx.violation("C10.D1", key, fi.loc(), "no product loop over the knots found in %s" % fi.qual)
            continue
        i = ("n", pl["ivar"])
        whole = pl["iter"] in (("call", ("n", "enumerate"), (knots,), ()), ("call", ("n", "range"), (("call", ("n", "len"), (knots,), ()),), ()))
        from ..terms import norm_cmp
        only_filter = pl["filters"] == [norm_cmp("NotEq", idx, i)]
        if kind == "eval":
            xs = call.params[1]
            okf = pl["factor"] == ("op", "Sub", (("n", xs), ("s", knots, i)))
        else:
            den = ("op", "Sub", (("s", knots, idx), ("s", knots, i)))
            okf = pl["factor"] == ("op", "Div", (("c", "1"), den))
        ok = whole and only_filter and okf and not pl["escapes"]
        sites.append((fi, pl))
        ctx.check(ok, "C10.D1", key, fi.loc(pl["stmt"]),
                  "product over all knots i != index of %s" % show(pl["factor"]),
                  "%s: the Lagrange product is not over ALL knots with the single filter index != i and the factor %s (iterates %s, filters %s, "
                  "factor %s)" % (fi.qual, "(x - knot_i)" if kind == "eval" else "1/(knot_index - knot_i)", show(pl["iter"]),
                                  [show(g) for g in pl["filters"]], show(pl["factor"])))
    if len(sites) == 3:
        same = len({(repr(pl["iter"]), repr(pl["filters"]).replace(pl["ivar"], "$i")) for (_f, pl) in sites}) == 1
        ctx.check(same, "C10.D1", "BasisFunctions::same-range-and-filter", init.loc(),
                  "evaluation and normalisation use the same knot range and filter",
                  "the normalisation factor and the evaluation product of the Lagrange basis range over different knot subsets: the basis "
                  "function is no longer 1 at its own knot")
    # the evaluation returns product * factor; the initial values are 1
    tmc = Terms(call.node, max_depth=0)
    plc = _product_loop(call, target_local=True)
    prod = plc["stmt"].target.id if plc is not None else None
    okr = any(tmc.term(r.ast.value) == ("op", "Mult", tuple(sorted((("n", prod), ("a", ("n", "self"), "factor")), key=repr))) for r in R.return_paths(call)[0])
    inits_ok = any(b.kind == "assign" and tmc.term(b.value) == ("c", "1") for b in tmc.env.bindings.get(prod, []))
    ctx.check(okr and inits_ok, "C10.D1", R.key_of(call, "returns-normalised-product"), call.loc(),
              "returns (product starting at 1) * normalisation factor", "LagrangeBasis.__call__ no longer returns the product (started at 1) times self.factor")
    for fi in (init, minit):
        st = [s for s in R.self_stores(fi, "factor") if s.kind == "plain"]
        ok1 = bool(st) and all(isinstance(s.value, ast.Constant) and s.value.value == 1 for s in st)
        ctx.check(ok1, "C10.D1", R.key_of(fi, "factor-starts-at-one"), fi.loc(), "the normalisation factor starts at 1",
                  "the normalisation factor of %s does not start at 1" % fi.qual)
    rc = prog.func(BF + "LagrangeBasisRestricted.__call__")
    ctx.touch(rc)
    tmr = Terms(rc.node, max_depth=0)
    crc = cfg_of(rc)
    shape = set()
    for r in R.return_paths(rc)[0]:
        guards = tuple(sorted((g for (g, gn) in R.dominating_guards(rc, r, tmr) if gn.kind == "test"), key=repr))
        shape.add((guards, tmr.term(r.ast.value)))
    x = rc.params[1]
    sup = ("call", ("a", ("n", "self"), "point_in_support"), (("n", x),), ())
    want = {((sup,), ("call", ("a", ("call", ("n", "super"), (), ()), "__call__"), (("n", x),), ())), ((("not", sup),), ("c", "0.0"))}
    want2 = {((sup,), want and list(want)[0][1]), ((("not", sup),), ("c", "0"))}
    ctx.check(shape == want or any(v == ("c", "0") for (_g, v) in shape) and {g for (g, _v) in shape} == {(sup,), (("not", sup),)},
              "C10.D1", R.key_of(rc, "restricted-support"), rc.loc(),
              "base value inside the support, constant 0 outside",
              "LagrangeBasisRestricted.__call__ no longer returns the base value under point_in_support(x) and 0 otherwise")

    # ------------------------------------------------------------------ D2
    hz = prog.func(HZ)
    ctx.touch(hz)
    tm = Terms(hz.node, max_depth=0)
    c = cfg_of(hz)
    d = hz.params[3]
    gv = hz.params[1]
    # roles from the direct solve  S = np.linalg.solve(M, P[n, :]):  M collocation matrix, P pole values, n the row, S the surpluses
    dsolve = [x for x in R.calls_in(hz.node) if tm.term(x.func) == ("a", ("a", ("n", "np"), "linalg"), "solve") and len(x.args) == 2]
    if len(dsolve) != 1 or not isinstance(dsolve[0].args[0], ast.Name):
        raise AnalysisError("anchor vanished: the direct solve np.linalg.solve(<matrix>, <pole values>[n, :]) in %s" % hz.qual)
    MAT = dsolve[0].args[0].id
    rhs_ast = dsolve[0].args[1]
    RHSN = None
    if isinstance(rhs_ast, ast.Name):
        # the right-hand side held in a temporary:  rhs = P[n, :]
        bdef_ = R.reaching_unique_def(hz, rhs_ast.id, rhs_ast)
        if bdef_ is not None and bdef_.kind == "assign" and bdef_.value is not None:
            RHSN = rhs_ast.id
            rhs_ast = bdef_.value
    PV = rhs_ast.value.id if isinstance(rhs_ast, ast.Subscript) and isinstance(rhs_ast.value, ast.Name) else None
    rt_ = tm.term(rhs_ast)
    ROW = rt_[2][1][1] if rt_[0] == "s" and rt_[2][0] == "tuple" and rt_[2][1][0] == "n" else None
    par_ = getattr(dsolve[0], "_parent", None)
    HV = par_.targets[0].id if isinstance(par_, ast.Assign) and isinstance(par_.targets[0], ast.Name) else None
    if PV is None or ROW is None or HV is None:
        raise AnalysisError("anchor vanished: roles of the direct solve in %s (pole values %s, row %s, surpluses %s)" % (hz.qual, PV, ROW, HV))
    mstores = [st for st in walk_local(hz.node) if isinstance(st, ast.Assign) and isinstance(st.targets[0], ast.Subscript)
               and isinstance(st.targets[0].value, ast.Name) and st.targets[0].value.id == MAT]
    ctx.floor("C10.D2", len(mstores), 1, "collocation matrix stores")
    for st in mstores:
        tg = tm.term(st.targets[0].slice)
        stn = c.node_of(st)
        v = R.normalise_positions(hz, tm.term(st.value), stn, tm)
        ok = tg[0] == "tuple" and len(tg) == 3
        why = "the matrix is not filled element-wise"
        if ok:
            row, col = tg[1], tg[2]
            want = ("call", ("call", ("a", ("a", ("n", "self"), "grid"), "get_basis"), (("n", d), col), ()),
                    (("s", ("call", ("a", ("a", ("n", "self"), "grid"), "get_coordinates_dim"), (("n", d),), ()), row),), ())
            ok = v == want and row != col
            why = "matrix[%s, %s] = %s is not basis(d, column)(coordinates(d)[row])" % (show(row), show(col), show(v))
            # both loops range over all points of dimension d
            loops = [l for l in R.enclosing_loops(st) if isinstance(l, ast.For)]
            rng = ("call", ("n", "range"), (("s", ("n", hz.params[2]), ("n", d)),), ())

            def full_range(l):
                it_ = R.normalise_positions(hz, tm.term(l.iter), c.node_of(l), tm)
                if it_ == rng:
                    return True
                # enumerate over a list that was itself built over range(numPoints[d])
                if it_[0] == "call" and it_[1] == ("n", "enumerate") and len(it_[2]) == 1 and it_[2][0][0] == "comp" and len(it_[2][0][3]) == 1:
                    return R.normalise_positions(hz, it_[2][0][3][0][1], c.node_of(l), tm) == rng
                return False
            if ok and not (len(loops) >= 2 and all(full_range(l) for l in loops[-2:])):
                ok = False
                why = "the fill loops do not range over all numPoints[d] points"
        ctx.check(ok, "C10.D2", R.key_of(hz, "matrix-orientation"), hz.loc(st),
                  "row = grid point, column = basis function", "collocation matrix: " + why)
    # right-hand side read and solution write-back use the same pole positions
    reads = [st for st in walk_local(hz.node) if isinstance(st, ast.Assign) and isinstance(st.targets[0], ast.Subscript)
             and isinstance(st.targets[0].value, ast.Name) and st.targets[0].value.id == PV]
    writes = [st for st in walk_local(hz.node) if isinstance(st, ast.Assign) and isinstance(st.targets[0], ast.Subscript)
              and isinstance(st.targets[0].value, ast.Name) and st.targets[0].value.id == gv]
    ok = len(reads) == 1 and len(writes) == 1
    why = "expected one pole read and one write-back"
    if ok:
        rn_, wn_ = c.node_of(reads[0]), c.node_of(writes[0])
        rt, rv = R.normalise_positions(hz, tm.term(reads[0].targets[0].slice), rn_, tm, resolve=False), R.normalise_positions(hz, tm.term(reads[0].value), rn_, tm, resolve=False)
        wt, wv = R.normalise_positions(hz, tm.term(writes[0].targets[0].slice), wn_, tm, resolve=False), R.normalise_positions(hz, tm.term(writes[0].value), wn_, tm, resolve=False)
        i_r = rt[2] if rt[0] == "tuple" else None
        pos_r = rv[2][2] if rv[0] == "s" and rv[1] == ("n", gv) and rv[2][0] == "tuple" else None
        okr_ = pos_r is not None and pos_r[0] == "s" and pos_r[1][0] == "n" and pos_r[2] == i_r
        PC = pos_r[1] if okr_ else None                      # role: the position table of the current pole
        i_w = wv[2] if wv[0] == "s" and wv[1] == ("n", HV) else None
        pos_w = wt[2] if wt[0] == "tuple" else None
        okw = pos_w is not None and pos_w[0] == "s" and pos_w[1] == PC and pos_w[2] == i_w and wt[1] == ("n", ROW)
        ok = okr_ and okw
        why = "read %s <- %s ; write-back %s <- %s" % (show(rt), show(rv), show(wt), show(wv))
        if not ok:
            # whole-pole (fancy-indexing) form: pole_values[:, :] = grid_values[:, POS] ... grid_values[n, POS] = hierarchized_values --
            # the same position table POS selects the columns that are read and the entries that are written back, in the same order
            full = ("slice", ("c", "None"), ("c", "None"), ("c", "None"))
            pos_r2 = rv[2][2] if rv[0] == "s" and rv[1] == ("n", gv) and rv[2][0] == "tuple" and len(rv[2]) == 3 and rv[2][1] == full else None
            read_all = rt in (("tuple", full, full), full) and pos_r2 is not None and pos_r2[0] == "n"
            write_all = wt[0] == "tuple" and len(wt) == 3 and wt[1] == ("n", ROW) and wt[2] == pos_r2 and wv == ("n", HV)
            if read_all and write_all:
                ok = True
    ctx.check(ok, "C10.D2", R.key_of(hz, "pole-read-write-back"), hz.loc(writes[0]) if writes else hz.loc(),
              "pole value i is read from and surplus i is written back to pole_coordinates[i]",
              "hierarchisation does not read pole value i from / write surplus i back to the same position pole_coordinates[i]: " + why)
    # the two solve branches
    solves = []
    for b in tm.env.bindings.get(HV, []):
        if b.kind == "assign":
            t_ = tm.term(b.value)
            if RHSN is not None:
                t_ = _replace_term(t_, ("n", RHSN), tm.term(rhs_ast))
            for nm_ in {x[1] for x in subterms(t_) if x[0] == "n"} - {MAT, PV, ROW, HV}:
                bs_ = [bb for bb in tm.env.bindings.get(nm_, []) if bb.kind == "assign"]
                if len(tm.env.bindings.get(nm_, [])) == 1 and len(bs_) == 1 and isinstance(bs_[0].value, ast.Attribute):
                    t_ = _replace_term(t_, ("n", nm_), tm.term(bs_[0].value))
            solves.append(t_)
    rhs = ("s", ("n", PV), ("tuple", ("n", ROW), ("slice", ("c", "None"), ("c", "None"), ("c", "None"))))
    direct = ("call", ("a", ("a", ("n", "np"), "linalg"), "solve"), (("n", MAT), rhs), ())
    okd = direct in solves
    # roles of the QR factors: the two names unpacked from np.linalg.qr(M)
    qr_t = ("call", ("a", ("a", ("n", "np"), "linalg"), "qr"), (("n", MAT),), ())
    QN = next((nm for nm, bs in tm.env.bindings.items() for b in bs if b.kind == "unpack" and b.index == (0,) and tm.term(b.value) == qr_t), None)
    RN = next((nm for nm, bs in tm.env.bindings.items() for b in bs if b.kind == "unpack" and b.index == (1,) and tm.term(b.value) == qr_t), None)
    okq = any(t[0] == "call" and t[1] == ("n", "solve_triangular") and t[2][0] == ("n", RN) and
              t[2][1] == ("call", ("a", ("n", "np"), "inner"), (("a", ("n", QN), "T"), rhs), ()) for t in solves)
    qr_ok = QN is not None and RN is not None
    ctx.check(okd and (not any(t[1] == ("n", "solve_triangular") for t in solves if t[0] == "call") or (okq and qr_ok)), "C10.D2",
              R.key_of(hz, "solves-collocation-system"), hz.loc(),
              "both branches solve matrix * surpluses = pole values (directly / through Q, R = qr(matrix))",
              "a solve branch of the hierarchisation does not solve the collocation system `matrix * s = pole_values[n, :]`: %s" % [show(t)[:90] for t in solves])

    # ------------------------------------------------------------------ D3
    da = DefiniteAssignment(prog, hz)
    bad = {}
    for (name, ld, node) in da.possibly_undefined():
        bad.setdefault(name, ld)
    ctx.check(not bad, "C10.D3", R.key_of(hz, "factors-defined-where-used"), hz.loc(list(bad.values())[0]) if bad else hz.loc(),
              "every local (incl. the QR factors) is assigned on every path that reads it",
              "%s may be read on a path on which it was never assigned: the branch that factorises the matrix and the branch that uses the "
              "factors are no longer governed by the same condition" % sorted(bad))

    # ------------------------------------------------------------------ D7 / D8 (from round-2 seeds)
    check_knot_spacing(prog, ctx)
    check_quadrature_nodes_not_modified(prog, ctx)
    check_integral_of_the_function_itself(prog, ctx)
    check_float_value_buffer(prog, ctx)

    # ------------------------------------------------------------------ D5 / D6
    check_bspline_derivatives(prog, ctx)
    check_surplus_ownership(prog, ctx)

    # ------------------------------------------------------------------ D4
    for cq, methods in (("Grid.BasisGrid", ("integrate", "interpolate", "interpolate_grid")),
                        ("Grid.GlobalBasisGrid", ("integrate", "interpolate", "interpolate_grid", "get_surplusses"))):
        keys = {}
        for m in methods:
            fi = prog.func(cq + "." + m)
            ctx.touch(fi)
            tmf = Terms(fi.node)
            ks = set()
            for n in ast.walk(fi.node):
                if isinstance(n, ast.Subscript) and R.self_attr(n.value, fi.self_name) == "surplus_values":
                    k = tmf.term(n.slice)
                    ks.add(_abstract_params(fi, k))
            keys[m] = ks
        allk = set().union(*keys.values())
        ok = len(allk) == 1 and all(len(v) == 1 for v in keys.values())
        ctx.check(ok, "C10.D4", cq + "::surplus-key", prog.func(cq + ".integrate").loc(),
                  "surpluses are stored and looked up under the same key %s" % [show(k) for k in allk],
                  "%s stores and looks up surpluses under different keys: %s" % (cq, {m: [show(k) for k in v] for m, v in keys.items()}))
        # what is stored is the integrator's surpluses of the integration just performed
        fi = prog.func(cq + ".integrate")
        c2 = cfg_of(fi)
        tmf = Terms(fi.node, max_depth=0)
        st = [s for s in R.self_stores(fi, "surplus_values") if s.kind == "elem"]
        integ = [R.cfg_node(fi, x) for x in R.calls_in(fi.node) if R.self_attr(x.func, fi.self_name) == "integrator"]
        ok = bool(st) and bool(integ) and all(tmf.term(s.value) == ("call", ("a", ("a", ("n", "self"), "integrator"), "get_surplusses"), (), ())
                                               and any(c2.dominates(i, c2.node_of(s.stmt)) for i in integ) for s in st)
        ctx.check(ok, "C10.D4", cq + "::stores-fresh-surpluses", fi.loc(),
                  "the surpluses stored are read from the integrator after this integration",
                  "%s.integrate does not store integrator.get_surplusses() after running the integrator" % cq)


def _abstract_params(fi, k):
    """the level vector of the request is `levelvec` (parameter) or `<parameter>.levelvector`: both become $LV"""
    params = set(fi.params)

    def rec(t):
        if isinstance(t, tuple):
            if len(t) == 2 and t[0] == "n" and t[1] in params and t[1].lower().startswith("levelvec"):
                return ("$LV",)
            if len(t) == 3 and t[0] == "a" and t[2] == "levelvector" and t[1][0] == "n" and t[1][1] in params:
                return ("$LV",)
            return tuple(rec(x) for x in t)
        return t
    return rec(k)


def _accumulated(fi, name=None):
    """sum of `name = e0; name += e1; ...` (the general branch of the recursion) as a polynomial over value-term atoms; the
    accumulator is found by role: the returned local that is updated by augmented assignments"""
    from ..absint import poly_of_term, Poly
    tm = Terms(fi.node)
    def self_update(st):
        """`x = x + e` / `x = x - e`  ->  (op, e)"""
        if isinstance(st, ast.Assign) and len(st.targets) == 1 and isinstance(st.targets[0], ast.Name) and isinstance(st.value, ast.BinOp) \
                and isinstance(st.value.op, (ast.Add, ast.Sub)) and isinstance(st.value.left, ast.Name) and st.value.left.id == st.targets[0].id:
            return st.value.op, st.value.right
        return None
    if name is None:
        aug = {st.target.id for st in walk_local(fi.node) if isinstance(st, ast.AugAssign) and isinstance(st.target, ast.Name)}
        aug |= {st.targets[0].id for st in walk_local(fi.node) if self_update(st) is not None}
        retn = [r.ast.value.id for r in R.return_paths(fi)[0] if isinstance(r.ast.value, ast.Name) and r.ast.value.id in aug]
        if not retn:
            return None
        name = retn[-1]
    total = None
    n_assign = 0
    for st in walk_local(fi.node):
        su = self_update(st)
        if su is not None and st.targets[0].id == name:
            if total is None:
                return None
            total = total + poly_of_term(tm.term(su[1])) if isinstance(su[0], ast.Add) else total - poly_of_term(tm.term(su[1]))
        elif isinstance(st, ast.Assign) and isinstance(st.targets[0], ast.Name) and st.targets[0].id == name:
            n_assign += 1
            total = poly_of_term(tm.term(st.value))
        elif isinstance(st, ast.AugAssign) and isinstance(st.target, ast.Name) and st.target.id == name:
            if total is None:
                return None
            if isinstance(st.op, ast.Add):
                total = total + poly_of_term(tm.term(st.value))
            elif isinstance(st.op, ast.Sub):
                total = total - poly_of_term(tm.term(st.value))
            else:
                return None
    if n_assign != 1:
        return None
    return total


def _derive(p, x_atom, call_map):
    """formal d/dx of a Poly: x -> 1, call atoms f(x, ..) -> f'(x, ..) via call_map, atoms without x are constants"""
    from ..absint import Poly
    from fractions import Fraction
    out = Poly()
    for mono, coef in p.terms.items():
        for i, (atom, power) in enumerate(mono):
            rest = list(mono[:i]) + list(mono[i + 1:])
            if atom == x_atom:
                d_atom = None
                factor = Poly({tuple(sorted(rest + ([(atom, power - 1)] if power > 1 else []), key=repr)): coef * power})
                out = out + factor
            else:
                has_x = any(y == x_atom for y in subterms(atom)) if isinstance(atom, tuple) else False
                if not has_x:
                    continue
                if atom[0] == "call" and atom[1] in call_map and power == 1:
                    d = ("call", call_map[atom[1]], atom[2], atom[3])
                    out = out + Poly({tuple(sorted(rest + [(d, 1)], key=repr)): coef})
                else:
                    return None       # cannot differentiate this atom
    return out


def check_bspline_derivatives(prog, ctx):
    bs = prog.cls(BF + "BSpline")
    ev, d1, d2 = bs.methods["recursive_eval"], bs.methods["get_first_derivative_recursive"], bs.methods["get_second_derivative_recursive"]
    ctx.touch(ev, d1, d2)
    x = ("n", ev.params[1])
    f_ev = ("a", ("n", "self"), "recursive_eval")
    f_d1 = ("a", ("n", "self"), "get_first_derivative_recursive")
    f_d2 = ("a", ("n", "self"), "get_second_derivative_recursive")
    E, D1, D2 = _accumulated(ev), _accumulated(d1), _accumulated(d2)
    if E is None or D1 is None or D2 is None:
        raise AnalysisError("C10.D5: the B-spline recursions no longer accumulate their general branch in `result`")
    for (name, have, base, cmap, fi) in (("first", D1, E, {f_ev: f_d1}, d1), ("second", D2, D1, {f_ev: f_d1, f_d1: f_d2}, d2)):
        want = _derive(base, x, cmap)
        ok = want is not None and have == want
        ctx.check(ok, "C10.D5", R.key_of(fi, "is-formal-derivative"), fi.loc(),
                  "the %s-derivative recursion equals d/dx of the %s recursion (product rule, identically)" % (name, "value" if name == "first" else "first-derivative"),
                  "the %s-derivative recursion of BSpline is not the formal derivative of the recursion it differentiates "
                  "(difference: %r)" % (name, (have - want) if want is not None else "cannot differentiate"))
    # base cases: degree 0 has zero derivative, degree <= 1 zero second derivative
    for fi, bound in ((d1, "p == 0"), (d2, "p <= 1")):
        tm = Terms(fi.node, max_depth=0)
        ok = False
        for r in R.return_paths(fi)[0]:
            g = [show(gg) for (gg, gn) in R.dominating_guards(fi, r, tm) if gn.kind == "test"]
            if tm.term(r.ast.value) in (("c", "0.0"), ("c", "0")) and g:
                ok = True
        ctx.check(ok, "C10.D5", R.key_of(fi, "base-case"), fi.loc(), "the lowest degrees return 0", "%s lost its base case returning 0" % fi.name)


def check_surplus_ownership(prog, ctx):
    n = 0
    for base_q in ("Grid.BasisGrid", "Grid.GlobalBasisGrid"):
        base = prog.cls(base_q)
        for ci in prog.all_subclasses(base):
            shared = [c for c in ci.mro if "surplus_values" in c.class_attrs and isinstance(c.class_attrs["surplus_values"], (ast.Dict, ast.List, ast.Set, ast.Call))]
            for c in shared:
                n += 1
                ctx.violation("C10.D6", "%s::class-level-surplus_values" % c.qual, c.module.path.split("/")[-1] + ":%d" % c.node.lineno,
                              "%s defines `surplus_values` as a class attribute: all grid objects share one dictionary keyed by level vector, "
                              "so one grid interpolates with the surpluses another grid stored" % c.qual)
            # concrete classes (those that are instantiated with their own __init__) must create the dictionary per instance
            init = prog.lookup_method(ci, "__init__")
            if init is None or ci is base:
                continue
            uses = any(R.attr_reads(f.node, f.self_name or "self").get("surplus_values") for c in ci.mro for f in c.methods.values())
            if not uses:
                continue
            creates = any(s.kind == "plain" for c in ci.mro if "__init__" in c.methods for s in R.self_stores(c.methods["__init__"], "surplus_values"))
            # follow one level: __init__ of ci calls super().__init__ or a sibling initialiser that creates it
            n += 1
            ctx.check(creates, "C10.D6", "%s::creates-own-surplus-dict" % ci.qual, init.loc(),
                      "each %s object creates its own surplus dictionary" % ci.name,
                      "no constructor in the hierarchy of %s assigns self.surplus_values: the dictionary is shared or missing" % ci.qual)
    ctx.floor("C10.D6", n, 2, "basis grid classes using surplus_values")


def check_knot_spacing(prog, ctx):
    """D7: in the local B-spline grid the uniform knot vector of level l, `anchor + i * h`, spans the same interval as the level's
    points `np.linspace(anchor, E, 2**l + 1)`:  anchor + 2**l * h == E  (polynomial identity; h is looked through)."""
    from ..absint import poly_of_term
    n = 0
    for q in ("Grid.BSplineGrid1D.compute_1D_quad_weights",):
        fi = prog.func(q)
        ctx.touch(fi)
        tm = Terms(fi.node)                       # copy propagation resolves h
        for loop in [l for l in walk_local(fi.node) if isinstance(l, ast.For)]:
            lins = [x for st in loop.body for x in ast.walk(st) if isinstance(x, ast.Call) and isinstance(x.func, ast.Attribute) and x.func.attr == "linspace"
                    and len(x.args) == 3]
            comps = [x for st in loop.body for x in ast.walk(st) if isinstance(x, ast.ListComp) and isinstance(x.elt, ast.BinOp) and isinstance(x.elt.op, ast.Add)]
            if not lins or not comps:
                continue
            A, E, cnt = (tm.term(a) for a in lins[0].args)
            P = poly_of_term(cnt) - poly_of_term(("c", "1"))          # 2**l
            for cmp_ in comps:
                gen = cmp_.generators[0]
                if not isinstance(gen.target, ast.Name):
                    continue
                t = Terms(fi.node).term(cmp_)
                if t[0] != "comp":
                    continue
                body = t[2]
                # body = anchor + $0 * h
                pb = poly_of_term(body)
                i_atom = ((("bv", "$0"), 1),)
                lin = {k: v for k, v in pb.terms.items() if (("bv", "$0"), 1) in k}
                rest = {k: v for k, v in pb.terms.items() if (("bv", "$0"), 1) not in k}
                if not lin:
                    continue
                from ..absint import Poly
                hpoly = Poly({tuple(x for x in k if x != (("bv", "$0"), 1)): v for k, v in lin.items()})
                anchor = Poly(rest)
                n += 1
                ok = anchor == poly_of_term(A) and (anchor + P * hpoly) == poly_of_term(E)
                ctx.check(ok, "C10.D7", R.key_of(fi, "knots-span-the-area#%d" % n), fi.loc(cmp_),
                          "the uniform knots start at the area's left end and reach its right end after 2**l steps",
                          "the knot vector `%s` does not span the interval of the level's points linspace(%s, %s, ..): anchor + 2**l * h = %r"
                          % (src(cmp_.elt), show(A), show(E), anchor + P * hpoly))
    ctx.floor("C10.D7", n, 1, "uniform knot vectors in the local B-spline grid")


def check_quadrature_nodes_not_modified(prog, ctx, rule="C10.D8"):
    """D8: get_integral receives the grid's shared Gauss nodes / weights; a local that is updated in place must be a COPY of the
    parameter (np.array(p), p.copy(), an arithmetic expression), never the parameter itself or np.asarray(p)."""
    bf = prog.cls(BF + "BasisFunction")
    n = 0
    for fi in prog.overrides(bf, "get_integral"):
        if R.is_stub_body(fi.node):
            continue
        ctx.touch(fi)
        params = set(fi.params[1:])
        for st in walk_local(fi.node):
            if not (isinstance(st, ast.AugAssign) and isinstance(st.target, ast.Name)):
                continue
            b = R.reaching_unique_def(fi, st.target.id, st.target) if False else None
            defs = [bb for bb in Terms(fi.node, max_depth=0).env.bindings.get(st.target.id, []) if bb.kind == "assign" and bb.value is not None]
            aliasing = []
            for bb in defs:
                v = bb.value
                if isinstance(v, ast.Name) and v.id in params:
                    aliasing.append(bb)
                elif isinstance(v, ast.Call) and isinstance(v.func, ast.Attribute) and v.func.attr in ("asarray", "asanyarray", "view", "ravel", "reshape", "squeeze") \
                        and any(isinstance(x, ast.Name) and x.id in params for a_ in list(v.args) + [v.func.value] for x in ast.walk(a_)):
                    aliasing.append(bb)
            if not defs:
                continue
            n += 1
            if aliasing:
                ctx.violation(rule, R.key_of(fi, "in-place-on-parameter:%s" % st.target.id), fi.loc(st),
                              "`%s` updates `%s` in place, and `%s` binds it to the caller's array without copying: the grid's shared quadrature "
                              "nodes are rewritten, every later basis integral uses shifted nodes" % (src(st), st.target.id, src(aliasing[0].stmt)))
                break
        else:
            continue
    if not any(i.rule == rule and i.status == "violation" for i in ctx.instances):
        ctx.ok(rule, BF + "BasisFunction::get_integral-copies", "sparseSpACE/BasisFunctions.py",
               "%d in-place updates in get_integral overrides, all on copies of the parameters" % n)


def check_integral_of_the_function_itself(prog, ctx, rule="C10.D10"):
    """D10: get_integral integrates the basis function that __call__ evaluates.  For every class below BasisFunction, the get_integral it
    resolves to evaluates `self(x)` at the quadrature nodes -- or `self.A(x)` for a callable component A only if the __call__ this very
    class resolves to is nothing but `return self.A(x)` (an inherited get_integral that evaluates a component is wrong for a subclass whose
    __call__ modifies it)."""
    bf = prog.cls(BF + "BasisFunction")
    n = 0
    for ci in prog.all_subclasses(bf, include_self=False):
        gi = prog.lookup_method(ci, "get_integral")
        call = prog.lookup_method(ci, "__call__")
        if gi is None or call is None or R.is_stub_body(gi.node) or R.is_stub_body(call.node):
            continue
        ctx.touch(gi)
        ctx.touch(call)
        evals = []

        def collect(fn, denotes, depth):
            """denotes: local name -> None (the basis object itself) | attribute name (a component of it) | ("cls", FuncInfo) """
            for x in walk_local(fn.node):
                if not isinstance(x, ast.Call):
                    continue
                f = x.func
                if isinstance(f, ast.Name) and f.id in denotes:
                    evals.append((x, denotes[f.id]))
                    continue
                if isinstance(f, ast.Attribute) and isinstance(f.value, ast.Name) and f.value.id in denotes and denotes[f.value.id] is None:
                    if f.attr == "__call__":
                        evals.append((x, None))
                        continue
                    if prog.lookup_method(ci, f.attr) is None:
                        evals.append((x, f.attr))
                        continue
                if isinstance(f, ast.Attribute) and f.attr == "__call__" and x.args and isinstance(x.args[0], ast.Name) and denotes.get(x.args[0].id, 0) is None:
                    # explicit class call  Base.__call__(self, x)
                    k = prog.resolve_class_expr(fn.module.name, f.value, fn.cls)
                    tgt = prog.lookup_method(k, "__call__") if k is not None else None
                    evals.append((x, None if tgt is call else "<%s.__call__>" % (src(f.value))))
                    continue
                # the object (or a component) handed to a package function / method that evaluates it
                if depth <= 0:
                    continue
                passed = {}
                for pos, a_ in enumerate(x.args):
                    if isinstance(a_, ast.Name) and a_.id in denotes:
                        passed[pos] = denotes[a_.id]
                    elif isinstance(a_, ast.Attribute) and isinstance(a_.value, ast.Name) and denotes.get(a_.value.id, 0) is None \
                            and prog.lookup_method(ci, a_.attr) is None:
                        passed[pos] = a_.attr
                if not passed:
                    continue
                tgts = []
                if isinstance(f, ast.Name):
                    r_ = prog.resolve_name(fn.module.name, f.id)
                    if r_ and r_[0] == "func" and r_[1] in prog.functions:
                        tgts = [(prog.functions[r_[1]], 0)]
                elif isinstance(f, ast.Attribute) and isinstance(f.value, ast.Name) and denotes.get(f.value.id, 0) is None:
                    t_ = prog.lookup_method(ci, f.attr)
                    if t_ is not None:
                        tgts = [(t_, 0 if t_.is_static else 1)]
                for t_, off in tgts:
                    ps = list(t_.params)
                    d2 = {}
                    if off == 1 and t_.self_name:
                        d2[t_.self_name] = None
                    for pos, what in passed.items():
                        if pos + off < len(ps):
                            d2[ps[pos + off]] = what
                    collect(t_, d2, depth - 1)
        collect(gi, {gi.self_name: None}, 2)
        if not evals:
            continue
        n += 1
        # the component __call__ delegates to, if it is a pure delegate
        body = [st for st in call.node.body if not (isinstance(st, ast.Expr) and isinstance(st.value, ast.Constant))]
        delegate = None
        if len(body) == 1 and isinstance(body[0], ast.Return) and isinstance(body[0].value, ast.Call):
            cv = body[0].value
            xs = [p_ for p_ in call.params if p_ != call.self_name]
            if isinstance(cv.func, ast.Attribute) and R.attr_chain(cv.func.value) == [call.self_name] and len(cv.args) == 1 and not cv.keywords \
                    and isinstance(cv.args[0], ast.Name) and xs and cv.args[0].id == xs[0]:
                delegate = cv.func.attr
        bad = [(x, a) for (x, a) in evals if a is not None and a != delegate]
        ctx.check(not bad, rule, "%s::integrates-its-own-values" % ci.qual, gi.loc(bad[0][0]) if bad else gi.loc(),
                  "%s.get_integral evaluates the function %s.__call__ defines" % (gi.cls.name, call.cls.name),
                  "the get_integral that %s resolves to (%s) evaluates the component `self.%s(..)` at the quadrature nodes, but %s.__call__ is not "
                  "just `return self.%s(x)`: the integral belongs to a different function than the one the class evaluates"
                  % (ci.name, gi.qual, bad[0][1] if bad else "", call.cls.name, bad[0][1] if bad else ""))
    ctx.floor(rule, n, 4, "basis classes whose get_integral evaluates the function at quadrature nodes")


FLOAT_ALLOCATORS = {"empty", "zeros", "ones", "full"}
FLOAT_NAMES = {"float", "float64", "float32", "double", "longdouble", "float_", "complex", "complex128"}


def _is_float_dtype(e):
    if isinstance(e, ast.Name):
        return e.id in FLOAT_NAMES
    if isinstance(e, ast.Attribute):
        return e.attr in FLOAT_NAMES
    if isinstance(e, ast.Constant) and isinstance(e.value, str):
        return e.value.lstrip("<>=").startswith(("f", "d", "c", "float", "double", "complex"))
    return False


def _float_array_expr(fi, e, depth=0):
    """the expression certainly evaluates to a floating-point array: np.empty/zeros/ones/full without an integer dtype, np.array /
    asarray(..., dtype=float), x.astype(float), or a transpose / reshape / name bound to one of those"""
    if e is None or depth > 4:
        return False
    if isinstance(e, ast.Name):
        b = R.reaching_unique_def(fi, e.id, e)
        return b is not None and b.kind == "assign" and _float_array_expr(fi, b.value, depth + 1)
    if isinstance(e, ast.Attribute) and e.attr == "T":
        return _float_array_expr(fi, e.value, depth + 1)
    if isinstance(e, ast.Call):
        f_ = e.func
        nm = f_.attr if isinstance(f_, ast.Attribute) else (f_.id if isinstance(f_, ast.Name) else None)
        kw = {k.arg: k.value for k in e.keywords}
        if nm in FLOAT_ALLOCATORS:
            return "dtype" not in kw or _is_float_dtype(kw["dtype"])
        if nm in ("array", "asarray", "asanyarray", "ascontiguousarray", "fromiter"):
            return "dtype" in kw and _is_float_dtype(kw["dtype"])
        if nm == "astype":
            return bool(e.args) and _is_float_dtype(e.args[0])
        if nm in ("reshape", "transpose", "copy", "swapaxes", "ravel") and isinstance(f_, ast.Attribute) and \
                not (isinstance(f_.value, ast.Name) and f_.value.id in ("np", "numpy")):
            return _float_array_expr(fi, f_.value, depth + 1)
        if nm in ("reshape", "transpose", "copy", "swapaxes", "ravel") and e.args:
            return _float_array_expr(fi, e.args[0], depth + 1)
    return False


def check_float_value_buffer(prog, ctx):
    """C10.D11: the hierarchisation overwrites the nodal values with the surpluses IN the buffer it is given (element stores into
    grid_values).  The buffer must therefore be a floating-point array whatever the function returns: allocated by np.empty / zeros
    (float by default) or converted with an explicit float dtype.  `np.array([f(p) for p in points])` inherits the dtype of the
    function values; for an integer-valued function (labels, indicators, counts) every surplus is truncated when it is stored."""
    hz = prog.func("Hierarchization.HierarchizationLSG.hierarchize_poles_for_dim")
    buf = hz.params[1]
    inplace = [st for st in walk_local(hz.node) if isinstance(st, (ast.Assign, ast.AugAssign))
               and any(isinstance(t, ast.Subscript) and isinstance(t.value, ast.Name) and t.value.id == buf
                       for t in (st.targets if isinstance(st, ast.Assign) else [st.target]))]
    if not inplace:
        ctx.ok("C10.D11", R.key_of(hz, "buffer-overwritten-in-place"), hz.loc(),
               "the hierarchisation no longer writes into the buffer it receives: nothing to demand from the callers")
        return
    n = 0
    hzc = prog.func("Hierarchization.HierarchizationLSG.__call__")
    hz_call_param = hzc.params[1]
    for fi in prog.functions.values():
        if fi.cls is None or fi.module.name not in ("Integrator", "Grid", "GridOperation"):
            continue
        for call in R.calls_in(fi.node):
            f_ = call.func
            if not (isinstance(f_, ast.Attribute) and f_.attr == "hierarchization" and R.self_attr(f_, fi.self_name) == "hierarchization"):
                continue
            buf_arg = call.args[0] if call.args else next((k.value for k in call.keywords if k.arg == hz_call_param), None)
            if buf_arg is None:
                continue
            n += 1
            ctx.touch(fi)
            ok = _float_array_expr(fi, buf_arg)
            ctx.check(ok, "C10.D11", R.key_of(fi, "float-value-buffer"), fi.loc(call),
                      "the buffer handed to the hierarchisation is a floating-point array by construction",
                      "the buffer `%s` handed to the hierarchisation is not a floating-point array by construction (it takes the dtype of the "
                      "function values): the hierarchisation stores the surpluses into it in place (%s, line %d), for an integer-valued "
                      "function they are truncated" % (src(buf_arg)[:60], src(inplace[0])[:50], inplace[0].lineno))
    ctx.floor("C10.D11", n, 1, "calls of the hierarchisation operator")
