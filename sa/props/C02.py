"""C02 -- the standard combination equals the sparse-grid interpolant.

Decided structural clauses:
 D1 combination formula: at every site that combines component results the accumulator starts empty, the loop visits the
    whole scheme, and the only update adds (component result of THIS element) * (coefficient of THIS element)
 D2 ordering in perform_operation: initialize before the loop, get_result after it, the returned value is that result
 D3 points and weights are enumerated alike (same tensor enumerator, per-dimension arrays filled in the same loop from the
    same 1-D source, same boundary slice)
Not decided: exact reproduction at grid points, exactness on the hat space, coefficient sums per point (arithmetic)."""
import ast

from ..cfg import cfg_of, walk_local
from ..loader import AnalysisError, src
from ..terms import Terms, terms_of, show, subterms, contains
from .. import rules as R

EXPLANATION = ("Static analysis of the combination sites (StandardCombi.__call__/interpolate_grid/get_points_and_weights/"
               "perform_operation, Integration.evaluate_levelvec, DimAdaptiveCombi.perform_combi) and of the point/weight "
               "enumeration in Grid/GlobalGrid: loop-shape and accumulator discipline on the CFG, same-object value terms for "
               "result and coefficient, sibling agreement of enumerators and boundary slices.")

SC = "StandardCombi.StandardCombi"


def _scheme_loop(fi, loop):
    """element variable name if `loop` iterates the whole self.scheme, else None (+reason)"""
    tm = Terms(fi.node, max_depth=0)
    it = tm.term(loop.iter)
    sch = ("a", ("n", fi.self_name), "scheme")
    if it == sch and isinstance(loop.target, ast.Name):
        return loop.target.id, None
    if it == ("call", ("n", "enumerate"), (sch,), ()) and isinstance(loop.target, ast.Tuple) and len(loop.target.elts) == 2 \
            and isinstance(loop.target.elts[1], ast.Name):
        return loop.target.elts[1].id, None
    return None, "the loop iterates %s, not the whole self.scheme" % show(it)


def _loop_escapes(fi, loop, elem):
    """breaks, and continues not guarded by a zero-coefficient test"""
    c = cfg_of(fi)
    tm = Terms(fi.node, max_depth=0)
    bad = []
    for n in c.nodes:
        if n.kind == "stmt" and c.in_loop(n, loop) and n.loops and n.loops[-1] is loop:
            if isinstance(n.ast, (ast.Break, ast.Return)):
                bad.append("`%s` leaves the combination loop early (line %d)" % (src(n.ast), n.lineno))
            if isinstance(n.ast, ast.Continue):
                guards = [g for (g, gn) in R.dominating_guards(fi, n, tm) if gn.kind == "test" and c.in_loop(gn, loop)]
                zero = ("cmp", "Eq", ("a", ("n", elem), "coefficient"), ("c", "0"))
                zero2 = ("cmp", "Eq", ("c", "0"), ("a", ("n", elem), "coefficient"))
                if not any(g in (zero, zero2) for g in guards):
                    bad.append("a component grid is skipped under %s (line %d)" % ([show(g) for g in guards], n.lineno))
    return bad


def _accumulator_names(fi):
    """Role, not name: plain locals updated by an augmented assignment inside a loop over the whole self.scheme."""
    out = []
    for n in walk_local(fi.node):
        if isinstance(n, ast.AugAssign) and isinstance(n.target, ast.Name) and n.target.id not in out:
            for l in R.enclosing_loops(n):
                if isinstance(l, ast.For) and _scheme_loop(fi, l)[0] is not None:
                    out.append(n.target.id)
                    break
    return out


def _check_numeric_site(ctx, fi, label, rule="C02.D1"):
    """acc = zeros ; for cg in self.scheme: acc += X(cg) * cg.coefficient       (`label` names the role in the instance key)"""
    c = cfg_of(fi)
    tm = Terms(fi.node, max_depth=0)
    key = R.key_of(fi, "combine:%s" % label)
    accs = _accumulator_names(fi)
    if len(accs) > 1:
        # several scheme-loop accumulators: the combined value is the one whose update mentions a coefficient (or, failing that, the first)
        with_coef = [a for a in accs if any(isinstance(n, ast.AugAssign) and isinstance(n.target, ast.Name) and n.target.id == a
                                            and any(isinstance(x, ast.Attribute) and x.attr == "coefficient" for x in ast.walk(n.value))
                                            for n in walk_local(fi.node))]
        accs = with_coef[:1] or accs[:1]
    accname = accs[0] if accs else "<none>"
    updates = [n for n in walk_local(fi.node) if isinstance(n, ast.AugAssign) and isinstance(n.target, ast.Name) and n.target.id == accname]
    # only the serial (live) branch counts: the update directly using the scheme element
    sites = []
    for u in updates:
        loops = [l for l in R.enclosing_loops(u) if isinstance(l, ast.For)]
        for l in loops:
            elem, why = _scheme_loop(fi, l)
            if elem is not None:
                sites.append((u, l, elem))
    if not sites:
        ctx.violation(rule, key, fi.loc(), "no accumulating update (`x += ...`) of a local inside a loop over the whole self.scheme was found (%s): %s" %
                      (label, "; ".join(filter(None, [_scheme_loop(fi, l)[1] for u in updates for l in R.enclosing_loops(u) if isinstance(l, ast.For)])) or "no accumulation"))
        return
    for (u, loop, elem) in sites:
        problems = []
        if not isinstance(u.op, ast.Add):
            problems.append("the update is not an addition")
        t = tm.term(u.value)
        coef = ("a", ("n", elem), "coefficient")
        ok_term = t[0] == "op" and t[1] == "Mult" and coef in t[2] and len(t[2]) == 2
        if not ok_term:
            # the weighting may sit in a method of the class that only decides a value (get_multiplied_interpolation): look through it
            from ..inline import expand_value_calls
            t2 = tm.term(expand_value_calls(ctx.prog, fi, u.value))
            if t2[0] == "op" and t2[1] == "Mult" and coef in t2[2] and len(t2[2]) == 2:
                t, ok_term = t2, True
        if ok_term:
            other = [x for x in t[2] if x != coef][0]
            # the component result is computed for this very element
            alts = [other]
            if other[0] == "n":
                b = R.reaching_unique_def(fi, other[1], u.value)
                if b is not None and b.kind == "assign":
                    alts = [tm.term(b.value)]
                else:
                    # several definitions inside this iteration (e.g. cached vs freshly computed): all must be for this element
                    bs = [bb for bb in tm.env.bindings.get(other[1], []) if bb.kind == "assign" and bb.value is not None
                          and any(l is loop for l in R.enclosing_loops(bb.stmt))]
                    if bs and cfg_of(fi).must_pass_through(cfg_of(fi).node_of(loop), [R.cfg_node(fi, u)],
                                                          [cfg_of(fi).node_of(bb.stmt) for bb in bs]):
                        alts = [R.resolve_locals(fi, tm.term(bb.value), cfg_of(fi).node_of(bb.stmt), tm) for bb in bs]
            other = alts[0]
            if not all(any(x == ("n", elem) for x in subterms(a)) for a in alts):
                problems.append("the weighted value %s is not computed from the loop's component grid `%s`" % (show(other), elem))
            if any(x[0] == "a" and x[2] == "coefficient" and x[1] != ("n", elem) for x in subterms(t)):
                problems.append("a coefficient of another element is used")
        else:
            problems.append("the added term %s is not (component result) * %s.coefficient" % (show(t), elem))
        problems += _loop_escapes(fi, loop, elem)
        # initialisation dominates the loop and is empty
        ln = c.node_of(loop)
        inits = []
        for st in walk_local(fi.node):
            if isinstance(st, ast.Assign) and len(st.targets) == 1 and isinstance(st.targets[0], ast.Name) and st.targets[0].id == accname:
                inits.append(st)
        good_init = False
        for st in inits:
            sn = c.node_of(st)
            v = tm.term(st.value)
            empty = (v[0] == "call" and v[1][0] == "a" and v[1][2] in ("zeros", "zeros_like")) or v in (("c", "0"), ("c", "0.0"))
            if empty and c.dominates(sn, ln) and not c.in_loop(sn, loop):
                # not re-assigned on a path between the init and the loop, other than by itself
                good_init = True
            elif c.in_loop(sn, loop):
                problems.append("the accumulator is re-assigned inside the loop (line %d)" % st.lineno)
        if not good_init:
            # accept an init in an enclosing loop body that dominates the inner loop (perform_combi re-starts per iteration)
            for st in inits:
                sn = c.node_of(st)
                v = tm.term(st.value)
                if v in (("c", "0"), ("c", "0.0")) and c.dominates(sn, ln):
                    good_init = True
        if not good_init:
            problems.append("the accumulator is not initialised to zero before the loop")
        ctx.check(not problems, rule, key, fi.loc(u),
                  "zero-initialised, whole scheme, adds (result of %s) * %s.coefficient" % (elem, elem),
                  "combination of component results is not the coefficient-weighted sum over the whole scheme: " + "; ".join(problems))


def run(prog, ctx):
    sc = prog.cls(SC)
    # ------------------------------------------------------------------ D1
    call = prog.func(SC + ".__call__")
    ig = prog.func(SC + ".interpolate_grid")
    ctx.touch(call, ig)
    _check_numeric_site(ctx, call, "interpolation")
    _check_numeric_site(ctx, ig, "interpolation")
    pc = prog.func("DimAdaptiveCombi.DimAdaptiveCombi.perform_combi")
    ctx.touch(pc)
    _check_numeric_site(ctx, pc, "combiintegral")
    # the parallel helper multiplies by the element's own coefficient as well
    gm = prog.func(SC + ".get_multiplied_interpolation")
    ctx.touch(gm)
    tmg = Terms(gm.node)
    ok = False
    for r in R.return_paths(gm)[0]:
        t = tmg.term(r.ast.value)
        cg = gm.params[2]
        ok = t[0] == "op" and t[1] == "Mult" and ("a", ("n", cg), "coefficient") in t[2] and \
            any(x == ("n", cg) for o in t[2] if o != ("a", ("n", cg), "coefficient") for x in subterms(o))
    ctx.check(ok, "C02.D1", R.key_of(gm, "combine:helper"), gm.loc(),
              "the helper returns (interpolant on the component grid) * (that grid's coefficient)",
              "get_multiplied_interpolation does not return the component interpolant times that component's coefficient")
    # evaluate_levelvec: integral of the component's own level vector times its coefficient (accumulator: see C05.D1)
    el = prog.func("GridOperation.Integration.evaluate_levelvec")
    ctx.touch(el)
    tme = Terms(el.node)
    cg = el.params[1]
    good = False
    for s in R.self_stores(el, "integral"):
        if s.kind == "aug" and isinstance(s.stmt.op, ast.Add):
            t = tme.term(s.value)
            coef = ("a", ("n", cg), "coefficient")
            if t[0] == "op" and t[1] == "Mult" and coef in t[2]:
                other = [x for x in t[2] if x != coef]
                if other and other[0][0] == "call" and other[0][1][0] == "a" and other[0][1][2] == "integrate" \
                        and ("a", ("n", cg), "levelvector") in other[0][2]:
                    good = True
    ctx.check(good, "C02.D1", R.key_of(el, "combine:integral"), el.loc(),
              "adds integrate(f, cg.levelvector, ...) * cg.coefficient",
              "Integration.evaluate_levelvec does not add the integral on the component's own level vector times its coefficient")
    # get_points_and_weights: list form
    gpw = prog.func(SC + ".get_points_and_weights")
    ctx.touch(gpw)
    _check_points_and_weights(ctx, gpw)

    # ------------------------------------------------------------------ D2
    po = prog.func(SC + ".perform_operation")
    ctx.touch(po)
    c = cfg_of(po)
    tmp = Terms(po.node)
    inits = [R.cfg_node(po, x) for x in R.calls_in(po.node, method="initialize") if R.attr_chain(x.func.value) == [po.self_name, "operation"]]
    evals = [x for x in R.calls_in(po.node, method="evaluate_levelvec")]
    res = [x for x in R.calls_in(po.node, method="get_result")]
    problems = []
    loop = None
    if not evals:
        problems.append("evaluate_levelvec is never called")
    else:
        loops = [l for l in R.enclosing_loops(evals[0]) if isinstance(l, ast.For)]
        loop = loops[-1] if loops else None
        elem, why = _scheme_loop(po, loop) if loop is not None else (None, "evaluate_levelvec is not called in a loop")
        if elem is None:
            problems.append(why)
        else:
            a0 = evals[0].args[0] if evals[0].args else None
            if not (isinstance(a0, ast.Name) and a0.id == elem):
                problems.append("evaluate_levelvec is not applied to the loop's component grid")
            problems += _loop_escapes(po, loop, elem)
    if loop is not None:
        ln = c.node_of(loop)
        if not any(c.dominates(i, ln) and not c.in_loop(i, loop) for i in inits):
            problems.append("operation.initialize() does not dominate the combination loop")
        if any(c.in_loop(i, loop) for i in inits):
            problems.append("operation.initialize() is called inside the combination loop")
        if not res:
            problems.append("operation.get_result() is never read")
        else:
            rn = R.cfg_node(po, res[0])
            if not c.edge_dominates(ln, False, rn):
                problems.append("get_result() is read before the loop over all component grids has finished")
            rt = tmp.term(res[0])
            for r in R.return_paths(po)[0]:
                t = tmp.term(r.ast.value)
                if not (t[0] == "tuple" and t[-1] == rt):
                    problems.append("the returned combination result is not operation.get_result() read after the loop")
    # the scheme used is the one for the requested levels
    scp = prog.func(SC + ".set_combi_parameters")
    ctx.touch(scp)
    tms = Terms(scp.node)
    ok_s = False
    for s in R.self_stores(scp, "scheme"):
        t = tms.term(s.value)
        if t[0] == "call" and t[1][0] == "a" and t[1][2] == "getCombiScheme" and len(t[2]) >= 2 and t[2][0] == ("n", scp.params[1]) \
                and t[2][1] == ("n", scp.params[2]):
            ok_s = True
    if not ok_s:
        problems.append("set_combi_parameters does not build the scheme from getCombiScheme(lmin, lmax)")
    inlined_scheme = any(s_.kind == "plain" and s_.value is not None and tmp.term(s_.value)[0] == "call" and tmp.term(s_.value)[1][0] == "a"
                         and tmp.term(s_.value)[1][2] == "getCombiScheme" for s_ in R.self_stores(po, "scheme"))
    if not R.calls_in(po.node, method="set_combi_parameters") and not inlined_scheme:
        problems.append("perform_operation does not set the combination parameters")
    ctx.check(not problems, "C02.D2", R.key_of(po, "order"), po.loc(),
              "initialize -> loop over the whole scheme -> get_result, and the result read after the loop is returned",
              "perform_operation: " + "; ".join(problems))

    # ------------------------------------------------------------------ D4b: the standard scheme is the closed form only while the
    # instance's CombiScheme is NOT in the adaptive state; nobody but an adaptive driver's set-up may switch it (rule shared with C01.D1)
    from .C01 import check_initialisation
    check_initialisation(prog, ctx, prog.cls("combiScheme.CombiScheme"), "C02.D4")

    # ------------------------------------------------------------------ D3
    g = prog.cls("Grid.Grid")
    gp, gw = prog.func("Grid.Grid.getPoints"), prog.func("Grid.Grid.get_weights")
    ggp = prog.func("Grid.GlobalGrid.getPoints")
    ctx.touch(gp, gw, ggp)

    def enumerators(fi, attr):
        tm = Terms(fi.node)
        out = set()
        for r in R.return_paths(fi)[0]:
            t = tm.term(r.ast.value)
            for x in subterms(t):
                if x[0] == "call" and x[2] and x[2][0] == ("a", ("n", fi.self_name), attr) and x[1][0] == "n":
                    out.add(x[1][1])
        return out
    ep, ew, egp = enumerators(gp, "coordinate_array"), enumerators(gw, "weights"), enumerators(ggp, "coordinate_array")
    ok = len(ep) == 1 and ep == ew == egp
    ctx.check(ok, "C02.D3", "Grid.Grid::same-enumerator", gp.loc(),
              "points and weights are enumerated by the same tensor-product helper (%s)" % sorted(ep),
              "points are enumerated by %s (global grids: %s) but weights by %s: points and weights are misaligned" % (sorted(ep), sorted(egp), sorted(ew)))
    # the scalar lookups (used by the point-wise integrator, integrator='old') index the very arrays that the enumerators use:
    # getCoordinate -> the array getPoints enumerates, getWeight -> the array get_weights enumerates (both without boundary padding)
    for (lk_name, enum_attr) in (("getCoordinate", "coordinate_array"), ("getWeight", "weights")):
        lk = g.methods.get(lk_name)
        if lk is None:
            raise AnalysisError("anchor vanished: Grid.%s" % lk_name)
        ctx.touch(lk)
        idxp = lk.params[1] if len(lk.params) > 1 else None
        used = set()
        for x in ast.walk(lk.node):
            # <self.attr>[d][indexvector[d]]
            if isinstance(x, ast.Subscript) and isinstance(x.slice, ast.Subscript) and isinstance(x.slice.value, ast.Name) and x.slice.value.id == idxp \
                    and isinstance(x.value, ast.Subscript):
                a_ = R.self_attr(x.value.value, lk.self_name)
                if a_:
                    used.add(a_)
        ctx.check(used == {enum_attr}, "C02.D3", R.key_of(lk, "scalar-lookup-same-array"), lk.loc(),
                  "%s indexes self.%s, the array the tensor enumeration uses" % (lk_name, enum_attr),
                  "%s looks an index vector up in %s, but the points / weights are enumerated from self.%s: with boundary=False the two "
                  "numberings differ by the dropped boundary point, points and weights of the point-wise integrator are misaligned"
                  % (lk_name, sorted(used) or "no per-dimension array", enum_attr))
    # the single-inner-point special case of the composite trapezoidal weight is one of the values of the general formula
    # (h for an inner point, h/2 for an end point): a special case must not introduce a third value
    from ..absint import poly_of_term as _poly
    wct = prog.func("Grid.TrapezoidalGrid1D.weight_composite_trapezoidal")
    ctx.touch(wct)
    tmt = Terms(wct.node, max_depth=0)

    def arms(t):
        """values an expression with conditional sub-expressions can take"""
        if isinstance(t, tuple) and t and t[0] == "ifexp":
            return arms(t[2]) + arms(t[3])
        if isinstance(t, tuple) and t and t[0] == "op":
            outs = [[]]
            for x in t[2]:
                outs = [o + [a] for o in outs for a in arms(x)]
            return [("op", t[1], tuple(o)) for o in outs]
        return [t]
    ps_ = R.path_summaries(wct)
    rvals = [v for (_f, v) in ps_ if v != ("<falls-off>",)] if ps_ is not None else [tmt.term(r.ast.value) for r in R.return_paths(wct)[0]]
    general = [v for v in rvals if any(x[0] == "ifexp" for x in subterms(v))]
    special = [v for v in rvals if v not in general]
    allowed = set()
    for gv in general:
        for a_ in arms(gv):
            try:
                allowed.add(_poly(a_))
            except Exception:                          # noqa: BLE001
                pass
    bad_sp = []
    for sv in special:
        try:
            if _poly(sv) not in allowed:
                bad_sp.append(sv)
        except Exception:                              # noqa: BLE001
            bad_sp.append(sv)
    ctx.check(bool(general) and not bad_sp, "C02.D3", R.key_of(wct, "special-case-is-a-general-value"), wct.loc(),
              "the special-case weight %s is one of the general values %s" % ([show(x) for x in special], sorted(repr(x) for x in allowed)),
              "weight_composite_trapezoidal: the special case returns %s, which is neither the inner-point weight (spacing) nor the end-point "
              "weight (spacing / 2) of the general formula: the single inner point of a level-1 grid without boundary gets a different weight"
              % [show(x) for x in bad_sp])
    # weights reduce over the dimension axis of the enumerated tuples
    tmw = Terms(gw.node)
    okp = False
    for r in R.return_paths(gw)[0]:
        t = tmw.term(r.ast.value)
        for x in subterms(t):
            if x[0] == "call" and x[1] == ("a", ("n", "np"), "prod") and (dict(x[3]).get("axis") == ("c", "1") or (len(x[2]) == 2 and x[2][1] == ("c", "1"))):
                okp = True
    ctx.check(okp, "C02.D3", R.key_of(gw, "product-over-dimensions"), gw.loc(),
              "a point's weight is the product of its per-dimension weights",
              "get_weights does not take the product over the dimension axis of the enumerated weight tuples")
    gpaw = prog.func("Grid.Grid.get_points_and_weights")
    ctx.touch(gpaw)
    tmq = Terms(gpaw.node)
    okq = any(tmq.term(r.ast.value) == ("tuple", ("call", ("a", ("n", "self"), "getPoints"), (), ()), ("call", ("a", ("n", "self"), "get_weights"), (), ()))
              for r in R.return_paths(gpaw)[0])
    ctx.check(okq, "C02.D3", R.key_of(gpaw, "pairs"), gpaw.loc(), "get_points_and_weights returns (getPoints(), get_weights())",
              "get_points_and_weights no longer returns (self.getPoints(), self.get_weights())")
    # producers
    sca = prog.func("Grid.Grid.setCurrentArea")
    ctx.touch(sca)
    tma = Terms(sca.node)
    shapes = {}
    for s in R.self_stores(sca):
        if s.attr in ("coordinate_array", "weights") and s.kind == "plain":
            shapes[s.attr] = tma.term(s.value)

    def abstract(t, attr):
        if isinstance(t, tuple):
            if len(t) == 3 and t[0] == "a" and t[2] == attr:
                return ("a", abstract(t[1], attr), "$F")
            return tuple(abstract(x, attr) for x in t)
        return t
    ok = "coordinate_array" in shapes and "weights" in shapes and \
        abstract(shapes["coordinate_array"], "coords") == abstract(shapes["weights"], "weights")
    ctx.check(ok, "C02.D3", R.key_of(sca, "same-producer"), sca.loc(),
              "coordinate_array and weights are collected from the same 1-D grids over the same dimension range",
              "setCurrentArea collects coordinates (%s) and weights (%s) differently" %
              (show(shapes.get("coordinate_array", ("?",))), show(shapes.get("weights", ("?",)))))
    g1 = prog.func("Grid.Grid1d.set_current_area")
    ctx.touch(g1)
    tm1 = Terms(g1.node)
    st = {s.attr: tm1.term(s.value) for s in R.self_stores(g1) if s.attr in ("coords", "weights") and s.kind == "plain"}
    ok = False
    if "coords" in st and "weights" in st:
        a, b = R_strip(st["coords"]), R_strip(st["weights"])
        ok = a[0] == "unpack" and b[0] == "unpack" and a[1] == b[1] and a[2] == (0,) and b[2] == (1,) and \
            a[1][0] == "call" and a[1][1] == ("a", ("n", "self"), "get_1d_points_and_weights")
    ctx.check(ok, "C02.D3", R.key_of(g1, "one-call"), g1.loc(),
              "1-D coordinates and weights come from one get_1d_points_and_weights() call",
              "Grid1d.set_current_area no longer takes coords and weights from the same get_1d_points_and_weights() call")
    sg = prog.func("Grid.GlobalGrid.set_grid")
    ctx.touch(sg)
    _check_global_set_grid(ctx, sg)
    _check_tensor_request_order(prog, ctx)
    _check_index_spaces(prog, ctx)
    ctx.floor("C02.D3", sum(1 for i in ctx.instances if i.rule == "C02.D3"), 6, "point/weight alignment instances")

    # ------------------------------------------------------------------ D4
    _check_closed_form_scheme(prog, ctx)
    # ------------------------------------------------------------------ D5 - D7
    check_scheme_of_this_call(prog, ctx)
    check_fresh_accumulator(prog, ctx)
    check_component_axis_last(prog, ctx)


def _enumerator_kind(t):
    """'C' for row-major (last dimension fastest) tensor enumerations, 'xy' for numpy's default meshgrid order, None unknown."""
    kinds = set()
    for x in subterms(t):
        if x[0] == "call" and x[1][0] == "n" and x[1][1] in ("get_cross_product", "get_cross_product_list", "get_cross_product_numpy_array"):
            kinds.add("C")
        if x[0] == "call" and x[1] in (("a", ("n", "itertools"), "product"), ("n", "product")):
            kinds.add("C")
        if x[0] == "call" and x[1] == ("a", ("n", "np"), "meshgrid"):
            idx = dict(x[3]).get("indexing")
            kinds.add("C" if idx == ("c", "'ij'") else "xy")
    if len(kinds) == 1:
        return kinds.pop()
    return None if not kinds else "mixed"


def _check_tensor_request_order(prog, ctx):
    """interpolate_grid documents its result as ordered like the cross product of the 1-D coordinates (the order of
    Grid.getPoints); the component request must enumerate the tensor grid in that same order."""
    fi = prog.func(SC + ".interpolate_grid_component")
    ctx.touch(fi)
    tm = Terms(fi.node)
    rets = R.return_paths(fi)[0]
    ok = False
    kind = None
    for r in rets:
        t = tm.term(r.ast.value)
        if t[0] == "call" and t[1] == ("a", ("n", "self"), "interpolate_points") and t[2]:
            kind = _enumerator_kind(t[2][0])
            uses_param = any(x == ("n", fi.params[1]) for x in subterms(t[2][0]))
            ok = kind == "C" and uses_param and t[2][1] == ("n", fi.params[2])
    ctx.check(ok, "C02.D3", R.key_of(fi, "tensor-request-order"), fi.loc(),
              "the tensor-grid request enumerates its points in cross-product (row-major) order, like Grid.getPoints",
              "interpolate_grid_component enumerates the requested tensor grid in %s order: the values returned by interpolate_grid "
              "are no longer ordered like the cross product of the 1-D coordinates" % (kind or "an unrecognised"))


def _check_index_spaces(prog, ctx):
    """In the 1-D grids `index + self.lowerBorder` is a position in the numbering WITH boundary points; it may only be related to
    num_points_with_boundary, never to num_points (the count without boundary)."""
    g1 = prog.cls("Grid.Grid1d")
    n = 0
    for ci in prog.all_subclasses(g1):
        for fi in ci.methods.values():
            # single-definition locals are looked through (`global_index = index + self.lowerBorder`)
            defs = {}
            for st in walk_local(fi.node):
                if isinstance(st, ast.Assign) and len(st.targets) == 1 and isinstance(st.targets[0], ast.Name):
                    defs.setdefault(st.targets[0].id, []).append(st.value)
            single = {k: v[0] for k, v in defs.items() if len(v) == 1}

            def expand(e, depth=0):
                out = [e]
                if depth < 3:
                    for x in ast.walk(e):
                        if isinstance(x, ast.Name) and x.id in single:
                            out += expand(single[x.id], depth + 1)
                return out
            for node in ast.walk(fi.node):
                parts = []
                if isinstance(node, ast.Compare) and len(node.ops) == 1:
                    parts = [node.left, node.comparators[0]]
                elif isinstance(node, ast.BinOp) and isinstance(node.op, (ast.Div, ast.FloorDiv, ast.Mod, ast.Sub)):
                    parts = [node.left, node.right]
                if len(parts) != 2:
                    continue
                def has_wb_pos(e):
                    return any(isinstance(b, ast.BinOp) and isinstance(b.op, ast.Add) and
                               any(R.self_attr(o, fi.self_name) == "lowerBorder" for o in (b.left, b.right)) for e2 in expand(e) for b in ast.walk(e2))
                def counts(e):
                    return {R.self_attr(a, fi.self_name) for e2 in expand(e) for a in ast.walk(e2) if isinstance(a, ast.Attribute)} & {"num_points", "num_points_with_boundary"}
                for a, b in ((parts[0], parts[1]), (parts[1], parts[0])):
                    if has_wb_pos(a) and counts(b):
                        n += 1
                        ctx.touch(fi)
                        ok = counts(b) == {"num_points_with_boundary"}
                        ctx.check(ok, "C02.D3", R.key_of(fi, "index-space#%d" % n), fi.loc(node),
                                  "a with-boundary position is related to the with-boundary count",
                                  "`%s` relates a position in the numbering with boundary points (index + lowerBorder) to num_points, the count "
                                  "WITHOUT boundary points: off by the dropped boundary points when boundary=False" % src(node)[:120])
    # the half weight of the composite trapezoidal rule belongs to the two points on the GLOBAL boundary: its condition is stated on
    # with-boundary positions (index + lowerBorder); the bare local index is 0 for the first interior point when boundary=False
    wf = prog.func("Grid.TrapezoidalGrid1D.weight_composite_trapezoidal")
    ctx.touch(wf)
    idx_p = wf.params[1]
    halves = [x for x in ast.walk(wf.node) if isinstance(x, ast.IfExp) and any(isinstance(c_, ast.Constant) and c_.value == 0.5 for c_ in (x.body, x.orelse))]
    halves += [x for x in ast.walk(wf.node) if isinstance(x, ast.If) and any(isinstance(c_, ast.Constant) and c_.value == 0.5 for st_ in x.body + x.orelse for c_ in ast.walk(st_))]
    bare = []
    for h in halves:
        for cmp_ in [y for y in ast.walk(h.test) if isinstance(y, ast.Compare)]:
            for side in [cmp_.left] + list(cmp_.comparators):
                if isinstance(side, ast.Name) and side.id == idx_p:
                    bare.append(cmp_)
    if halves:
        ctx.check(not bare, "C02.D3", R.key_of(wf, "half-weight-on-global-boundary"), wf.loc(bare[0]) if bare else wf.loc(),
                  "the half weight is decided on positions in the numbering with boundary points",
                  "`%s` decides the half weight of the trapezoidal rule on the local index; with boundary=False (lowerBorder = 1) the first and last "
                  "interior points then get h/2 instead of h" % (src(bare[0])[:100] if bare else ""))
        n += 1 if bare else 0
    ctx.floor("C02.D3.index-space", n, 2, "with-boundary position expressions in the 1-D grids")


def _check_closed_form_scheme(prog, ctx):
    """D4: the closed-form (non-adaptive) scheme is a pure function of (dim, lmin, lmax): no instance state is read or written on
    that branch, and every level vector is shifted by lmin - 1."""
    fi = prog.func("combiScheme.CombiScheme.getCombiScheme")
    ctx.touch(fi)
    c = cfg_of(fi)
    tm = Terms(fi.node, max_depth=0)
    flag = ("a", ("n", fi.self_name), "initialized_adaptive")
    tests = [n for n in c.nodes if n.kind == "test" and tm.term(n.ast) == flag]
    if not tests:
        raise AnalysisError("C02.D4: getCombiScheme no longer branches on self.initialized_adaptive")
    tnode = tests[0]
    # nodes executed only on the non-adaptive side: reachable when the True edge of the flag test is removed, minus those
    # also reachable when the False edge is removed
    def reach_without(label):
        be = {(tnode.idx, s.idx, l) for (s, l) in tnode.succ if l is label}
        return c.reachable(blocked_edges=be)
    only_closed = reach_without(True) - reach_without(False)
    bad_reads, bad_writes = [], []
    for n in c.nodes:
        if n.idx not in only_closed or n.ast is None:
            continue
        root = n.ast if n.kind != "for" else n.ast.iter
        for x in ast.walk(root):
            a = R.self_attr(x, fi.self_name)
            if a is None:
                continue
            if isinstance(x.ctx, ast.Load) and a not in ("dim",):
                par = getattr(x, "_parent", None)
                if isinstance(par, ast.Call) and par.func is x:
                    continue
                bad_reads.append(a)
        if n.kind == "stmt":
            for s in R.attribute_stores(ast.Module(body=[n.ast], type_ignores=[])) if False else []:
                pass
    for s in R.self_stores(fi):
        sn = c.node_of(s.stmt) or R.cfg_node(fi, s.stmt)
        if sn is not None and sn.idx in only_closed:
            bad_writes.append(s.attr)
    ctx.check(not bad_reads and not bad_writes, "C02.D4", R.key_of(fi, "closed-form-stateless"), fi.loc(),
              "the closed-form scheme reads only self.dim and writes no instance state",
              "the non-adaptive branch of getCombiScheme keeps state on the instance (reads %s, writes %s): a later request with other "
              "levels can be answered from an earlier one" % (sorted(set(bad_reads)), sorted(set(bad_writes))))
    # level shift by lmin - 1 on every constructed grid of that branch
    cons = [x for x in ast.walk(fi.node) if isinstance(x, ast.Call) and isinstance(x.func, ast.Name) and x.func.id == "ComponentGridInfo"]
    shift_ok = False
    for x in cons:
        node = c.node_containing(x)
        if node is None or node.idx not in only_closed:
            continue
        kws = {k.arg: k.value for k in x.keywords}
        lv = kws.get("levelvector", x.args[0] if x.args else None)
        tm0_ = Terms(fi.node, max_depth=0)
        t = R.resolve_locals(fi, tm0_.term(lv), node, tm0_) if lv is not None else ("?",)
        lminp, lmaxp = fi.params[1], fi.params[2]
        shift_ok = any(y == ("op", "Sub", (("n", lminp), ("c", "1"))) for y in subterms(t))
    budget_ok = False
    for x in [y for y in ast.walk(fi.node) if isinstance(y, ast.Call) and isinstance(y.func, ast.Attribute) and y.func.attr == "getGrids"]:
        from ..absint import poly_of_term, Poly
        t = R.resolve_locals(fi, Terms(fi.node, max_depth=0).term(x.args[1]), c.node_containing(x), Terms(fi.node, max_depth=0))
        p = poly_of_term(t)
        lm, lx = (((("n", fi.params[1]), 1),)), (((("n", fi.params[2]), 1),))
        if p.terms.get(lx) == 1 and p.terms.get(lm) == -1:
            budget_ok = True
    ctx.check(shift_ok and budget_ok, "C02.D4", R.key_of(fi, "level-shift"), fi.loc(),
              "level vectors are enumerated for lmax - lmin + 1 - q and shifted by lmin - 1",
              "the closed-form scheme does not enumerate for lmax - lmin (+const) and shift every level vector by lmin - 1")


def R_strip(t):
    while t[0] == "call" and t[1] in (("a", ("n", "np"), "asarray"), ("a", ("n", "np"), "array")) and t[2]:
        t = t[2][0]
    return t


def _check_points_and_weights(ctx, fi):
    c = cfg_of(fi)
    tm = Terms(fi.node, max_depth=0)
    key = R.key_of(fi, "combine:points-and-weights")
    problems = []
    exts = {}
    for x in R.calls_in(fi.node, method="extend"):
        if isinstance(x.func.value, ast.Name):
            exts.setdefault(x.func.value.id, []).append(x)
    rets = R.return_paths(fi)[0]
    if not rets or not isinstance(rets[0].ast.value, ast.Tuple) or len(rets[0].ast.value.elts) != 2:
        ctx.violation("C02.D1", key, fi.loc(), "get_points_and_weights no longer returns a (points, weights) pair")
        return
    names = []
    for e in rets[0].ast.value.elts:
        nm = [n.id for n in ast.walk(e) if isinstance(n, ast.Name) and n.id not in ("np",)]
        names.append(nm[0] if nm else None)
    pname, wname = names
    if pname not in exts or wname not in exts or len(exts[pname]) != 1 or len(exts[wname]) != 1:
        ctx.violation("C02.D1", key, fi.loc(), "points / weights are not each extended exactly once per component grid")
        return
    pe, we = exts[pname][0], exts[wname][0]
    loops = [l for l in R.enclosing_loops(we) if isinstance(l, ast.For)]
    loop = loops[-1] if loops else None
    elem, why = _scheme_loop(fi, loop) if loop is not None else (None, "no loop")
    if elem is None:
        problems.append(why)
    else:
        problems += _loop_escapes(fi, loop, elem)
        if not (R.enclosing_loops(pe) and R.enclosing_loops(pe)[-1] is loop):
            problems.append("points and weights are not extended in the same loop")
        # weights: [w * elem.coefficient for w in W]
        wv = we.args[0]
        if isinstance(wv, ast.Name):
            b = R.reaching_unique_def(fi, wv.id, wv)
            wexpr = b.value if b is not None and b.kind == "assign" else None
        else:
            wexpr = wv
        wt = Terms(fi.node, max_depth=0).term(wexpr) if wexpr is not None else ("?",)
        coef = ("a", ("n", elem), "coefficient")
        src_w = None
        if wt[0] == "comp" and wt[2][0] == "op" and wt[2][1] == "Mult" and coef in wt[2][2] and ("bv", "$0") in wt[2][2] and len(wt[3]) == 1 \
                and wt[3][0][2] == ():
            src_w = wt[3][0][1]
        elif wt[0] == "op" and wt[1] == "Mult" and coef in wt[2]:
            src_w = R_strip([x for x in wt[2] if x != coef][0])        # np.asarray(weights) * coefficient: the whole array scaled
        else:
            problems.append("the combined weights %s are not (component weights) * %s.coefficient" % (show(wt), elem))
        # both come from the same per-component call on elem.levelvector
        pv = pe.args[0]
        calls = [x for x in R.calls_in(loop) if isinstance(x.func, ast.Attribute) and "points_and_weights" in x.func.attr]
        if len(calls) != 1:
            problems.append("points and weights do not come from one get_points_and_weights_component_grid call")
        else:
            cc = calls[0]
            if not (cc.args and tm.term(cc.args[0]) == ("a", ("n", elem), "levelvector")):
                problems.append("the component points/weights are not requested for the loop element's level vector")
            par = getattr(cc, "_parent", None)
            if isinstance(par, ast.Assign) and isinstance(par.targets[0], ast.Tuple) and len(par.targets[0].elts) == 2:
                p0, w0 = [e.id if isinstance(e, ast.Name) else None for e in par.targets[0].elts]
                if not (isinstance(pv, ast.Name) and pv.id == p0):
                    problems.append("the extended points are not the points of this component grid")
                if src_w is not None and src_w != ("n", w0):
                    problems.append("the weighted values are not the weights of this component grid")
            else:
                problems.append("the (points, weights) pair of the component grid is not unpacked")
    # initialised empty before the loop
    for nm in (pname, wname):
        ok = False
        for st in walk_local(fi.node):
            if isinstance(st, ast.Assign) and isinstance(st.targets[0], ast.Name) and st.targets[0].id == nm \
                    and isinstance(st.value, ast.List) and not st.value.elts and loop is not None \
                    and cfg_of(fi).dominates(cfg_of(fi).node_of(st), cfg_of(fi).node_of(loop)) and not cfg_of(fi).in_loop(cfg_of(fi).node_of(st), loop):
                ok = True
        if not ok:
            problems.append("`%s` is not initialised to an empty list before the loop" % nm)
    ctx.check(not problems, "C02.D1", key, fi.loc(),
              "per component grid: its points, and its weights times its coefficient, are appended",
              "combined quadrature rule: " + "; ".join(problems))


def _check_global_set_grid(ctx, sg):
    tm = Terms(sg.node, max_depth=0)
    c = cfg_of(sg)
    key = R.key_of(sg, "aligned-append")
    ca = [x for x in R.method_calls_on_attr(sg.node, "coordinate_array", {"append"}, sg.self_name)]
    wa = [x for x in R.method_calls_on_attr(sg.node, "weights", {"append"}, sg.self_name)]
    problems = []
    if len(ca) != 1 or len(wa) != 1:
        problems.append("coordinates / weights are not each appended exactly once per dimension")
    else:
        lc, lw = R.enclosing_loops(ca[0]), R.enclosing_loops(wa[0])
        if not (lc and lw and lc[-1] is lw[-1]):
            problems.append("coordinates and weights are appended in different loops")
        else:
            loop = lc[-1]
            d = loop.target.id if isinstance(loop.target, ast.Name) else None
            if tm.term(loop.iter) != ("call", ("n", "range"), (("a", ("n", sg.self_name), "dim"),), ()):
                problems.append("the loop does not range over all dimensions")
            cn, wn = ca[0].args[0], wa[0].args[0]
            # per path through the loop body (locals substituted along the path, so temporaries, re-bindings such as
            # `coordsD = coordsD[1:-1]` and hoisted computations all look alike): the appended points are grid_points[d], the appended
            # weights are computed from grid_points[d], and both carry the same boundary slice
            def sink_of(call_):
                def f(st):
                    if isinstance(st, ast.Expr) and st.value is call_:
                        return call_.args[0]
                    return None
                return f
            # the two appends are matched through their clones' positions: re-find by structure in the copied block
            def summaries(target_attr):
                def f(st):
                    if isinstance(st, ast.Expr) and isinstance(st.value, ast.Call) and isinstance(st.value.func, ast.Attribute) and st.value.func.attr == "append" \
                            and R.self_attr(st.value.func.value, sg.self_name) == target_attr and st.value.args:
                        return st.value.args[0]
                    return None
                return R.block_summaries(sg, loop.body, f)
            cs, ws = summaries("coordinate_array"), summaries("weights")
            gp = ("s", ("n", sg.params[1]), ("n", d))
            if not cs or not ws:
                problems.append("the loop body could not be summarised path by path (loops / try inside the dimension loop)")
            else:
                def split(t):
                    """(base, slice or None)"""
                    if t[0] == "s" and t[2][0] == "slice":
                        return t[1], t[2]
                    return t, None
                by_facts_w = {}
                for (f_, v_) in ws:
                    by_facts_w.setdefault(frozenset(x for x in f_ if any(isinstance(y, tuple) and len(y) == 3 and y[0] == "a" and y[2] == "boundary" for y in subterms(x))), []).append(v_)
                for (f_, v_) in cs:
                    if v_ == ("<falls-off>",):
                        continue
                    key_f = frozenset(x for x in f_ if any(isinstance(y, tuple) and len(y) == 3 and y[0] == "a" and y[2] == "boundary" for y in subterms(x)))
                    wv = [w_ for w_ in by_facts_w.get(key_f, []) if w_ != ("<falls-off>",)]
                    cbase, cslice = split(v_)
                    if cbase != gp:
                        problems.append("coordinates of dimension d are not grid_points[d] on the path %s" % [show(x) for x in key_f])
                    if not wv:
                        problems.append("no weights are appended on the path %s" % [show(x) for x in key_f])
                    for w_ in wv:
                        wbase, wslice = split(w_)
                        if not (wbase[0] == "call" and wbase[2] and wbase[2][0] == gp):
                            problems.append("weights of dimension d are not computed from grid_points[d] on the path %s" % [show(x) for x in key_f])
                        if cslice != wslice:
                            problems.append("points are sliced with %s but weights with %s on the path %s" %
                                            (show(cslice) if cslice else None, show(wslice) if wslice else None, [show(x) for x in key_f]))
    # sortedness assertion kept (used as an axiom by C09.D1)
    asserts = [n for n in walk_local(sg.node) if isinstance(n, ast.Assert) and R.enclosing_loops(n)]
    sorted_ok = False
    for a in asserts:
        t = Terms(sg.node).term(a.test)
        if t[0] == "call" and t[1] == ("n", "all"):
            for x in subterms(t):
                if x[0] == "cmp" and x[1] in ("LtE", "Lt") and x[2][0] == "s" and x[3][0] == "s":
                    sorted_ok = True
    if not sorted_ok:
        problems.append("the sortedness assertion on grid_points[d] is gone")
    ctx.check(not problems, "C02.D3", key, sg.loc(),
              "per dimension, points and weights derive from the same grid_points[d] with the same boundary slice",
              "GlobalGrid.set_grid: " + "; ".join(problems))


def check_scheme_of_this_call(prog, ctx):
    """C02.D5: every call perform_operation(lmin, lmax) combines the component grids of THAT (lmin, lmax): on every path to the loop over
    self.scheme the scheme was re-computed from the call's own arguments (set_combi_parameters(lmin, lmax), or its body in place), and
    the operation was re-initialised; no guard of the kind "only if the levels changed" may skip either."""
    sc = prog.cls("StandardCombi.StandardCombi")
    fi = prog.func("StandardCombi.StandardCombi.perform_operation")
    ctx.touch(fi)
    c = cfg_of(fi)
    tm = Terms(fi.node, max_depth=0)
    me = fi.self_name
    # `for g in self.scheme`, `for i, g in enumerate(self.scheme)`, `for g in list(self.scheme)`, ...
    loops = [n for n in walk_local(fi.node) if isinstance(n, ast.For) and any(R.self_attr(x, me) == "scheme" for x in ast.walk(n.iter))]
    if not loops:
        raise AnalysisError("anchor vanished: the loop over self.scheme in StandardCombi.perform_operation")
    p_lmin, p_lmax = fi.params[1], fi.params[2]
    setters = []
    for call in R.calls_in(fi.node, method="set_combi_parameters"):
        if isinstance(call.func.value, ast.Name) and call.func.value.id == me and len(call.args) >= 2 \
                and tm.term(call.args[0]) == ("n", p_lmin) and tm.term(call.args[1]) == ("n", p_lmax):
            setters.append(R.cfg_node(fi, call))
    for s_ in R.self_stores(fi, "scheme"):
        t = tm.term(s_.value) if s_.value is not None else None
        if s_.kind == "plain" and t is not None and t[0] == "call" and t[1][0] == "a" and t[1][2] == "getCombiScheme" \
                and len(t[2]) >= 2 and t[2][0] == ("n", p_lmin) and t[2][1] == ("n", p_lmax):
            setters.append(R.cfg_node(fi, s_.stmt))
    inits = [R.cfg_node(fi, call) for call in R.calls_in(fi.node, method="initialize")
             if R.self_attr(call.func.value, me) == "operation"]
    for k, loop in enumerate(loops):
        ln = c.node_of(loop)
        ok_s = any(sn is not None and c.dominates(sn, ln) for sn in setters)
        ctx.check(ok_s, "C02.D5", R.key_of(fi, "scheme-recomputed#%d" % k), fi.loc(loop),
                  "the scheme combined by this call is computed from this call's lmin / lmax on every path",
                  "a path reaches the loop over self.scheme without `self.set_combi_parameters(%s, %s)` (or the scheme being recomputed from "
                  "these arguments): a second call on the same object with other levels combines the component grids of the earlier call"
                  % (p_lmin, p_lmax))
        ok_i = any(sn is not None and c.dominates(sn, ln) for sn in inits)
        ctx.check(ok_i, "C02.D5", R.key_of(fi, "operation-initialised#%d" % k), fi.loc(loop),
                  "the operation is initialised before the component grids are evaluated, on every path",
                  "a path reaches the loop over self.scheme without `self.operation.initialize()`: the accumulator still holds the result of "
                  "the previous call")
    ctx.floor("C02.D5", len(loops), 1, "loops over self.scheme in perform_operation")


def _returns_attribute_itself(fi, attr):
    tm = Terms(fi.node, max_depth=0)
    rets = R.return_paths(fi)[0]
    return bool(rets) and any(r.ast.value is not None and tm.term(r.ast.value) == ("a", ("n", fi.self_name), attr) for r in rets)


def check_fresh_accumulator(prog, ctx):
    """C02.D6: perform_operation returns operation.get_result(); Integration.get_result hands out self.integral ITSELF.  Results of
    earlier calls stay valid only if every start of a run binds self.integral to a new array: initialize() must re-assign the
    attribute to a freshly allocated array on every path and must not zero the existing array in place (`fill`, `[:] = 0`, `*= 0`)."""
    integ = prog.cls("GridOperation.Integration")
    n = 0
    for c_ in prog.all_subclasses(integ):
        gr = prog.lookup_method(c_, "get_result")
        ini = c_.methods.get("initialize")
        if ini is None or gr is None or gr.cls is None or gr.cls.qual != "GridOperation.Integration":
            continue
        if not _returns_attribute_itself(gr, "integral"):
            continue                          # a copy is handed out: nothing to demand from initialize
        n += 1
        ctx.touch(ini, gr)
        cf = cfg_of(ini)
        tm = Terms(ini.node, max_depth=0)
        fresh_nodes, inplace = [], []
        for s_ in R.self_stores(ini, "integral"):
            if s_.kind == "plain":
                t = tm.term(s_.value)
                is_fresh = t[0] == "call" and isinstance(t[1], tuple) and t[1][0] == "a" and t[1][2] in ("zeros", "zeros_like", "empty", "full", "array", "ones")
                if is_fresh:
                    fresh_nodes.append(R.cfg_node(ini, s_.stmt))
                else:
                    inplace.append(s_)
            else:
                inplace.append(s_)
        for call in R.calls_in(ini.node):
            f_ = call.func
            if isinstance(f_, ast.Attribute) and f_.attr in ("fill", "put", "itemset") and R.self_attr(f_.value, ini.self_name) == "integral":
                inplace.append(R.Store("integral", "mutator", f_.value, R.stmt_of(call), call=call))
        on_all = bool(fresh_nodes) and cf.must_pass_through(cf.entry, [cf.exit], [x for x in fresh_nodes if x is not None])
        ok = on_all and not inplace
        why = ("`%s` resets the accumulator in place" % src(inplace[0].stmt)[:80]) if inplace else "a path through initialize() does not re-assign self.integral"
        ctx.check(ok, "C02.D6", R.key_of(ini, "fresh-accumulator"), ini.loc(inplace[0].stmt) if inplace else ini.loc(),
                  "every run starts with a newly allocated accumulator (get_result hands the accumulator itself to the caller)",
                  "%s; get_result returns self.integral itself, so the result array an earlier perform_operation call returned is overwritten "
                  "by the next run" % why)
    ctx.floor("C02.D6", n, 1, "initialize() of operations whose get_result returns the accumulator itself")


def check_component_axis_last(prog, ctx):
    """C02.D7: the nodal values of a component grid arrive as an (n_points, n_components) array in the row-major order of the mesh.
    Bringing them into mesh shape keeps the component axis LAST (select `values[:, d]` and reshape to the mesh shape, or reshape to
    (*mesh, n_components)); a reshape that puts the component count first reinterprets the buffer and scatters the components over the
    mesh nodes for every vector-valued function."""
    fi = prog.func("GridOperation.Interpolation.interpolate_points")
    ctx.touch(fi)
    tm = Terms(fi.node, max_depth=0)
    vparam = fi.params[0] if fi.is_static else fi.params[1]
    ncomp = ("call", ("n", "len"), (("s", ("n", vparam), ("c", "0")),), ())
    bad, n = [], 0
    for call in [x for x in ast.walk(fi.node) if isinstance(x, ast.Call)]:
        f_ = call.func
        name = f_.attr if isinstance(f_, ast.Attribute) else (f_.id if isinstance(f_, ast.Name) else None)
        if name != "reshape":
            continue
        if isinstance(f_, ast.Attribute) and not (isinstance(f_.value, ast.Name) and f_.value.id in ("np", "numpy")):
            arr, shape = f_.value, call.args
        else:
            arr, shape = (call.args[0] if call.args else None), call.args[1:]
        if arr is None:
            continue
        cn = cfg_of(fi).node_containing(call)
        at = R.resolve_locals(fi, tm.term(arr), cn, tm) if cn is not None and cn.ast is not None else tm.term(arr)
        if at != ("n", vparam):
            continue                       # a slice / a transposed array / something else: not the raw buffer
        n += 1
        first = shape[0] if shape else None
        if isinstance(first, (ast.Tuple, ast.List)) and first.elts:
            first = first.elts[0]
        if isinstance(first, ast.Starred):
            first = None
        ft = R.resolve_locals(fi, tm.term(first), cn, tm) if first is not None and cn is not None and cn.ast is not None else (tm.term(first) if first is not None else None)
        if ft == ncomp:
            bad.append(call)
    ctx.check(not bad, "C02.D7", R.key_of(fi, "component-axis-last"), fi.loc(bad[0]) if bad else fi.loc(),
              "the value buffer is never reshaped with the component count as leading axis (%d reshapes of the raw buffer)" % n,
              "`%s` reshapes the (n_points, n_components) buffer `%s` with the component count first: this reinterprets the memory instead of "
              "transposing it, the components of a vector-valued function are scattered over the mesh nodes" % (src(bad[0])[:90] if bad else "", vparam))
