"""C19 -- classification assigns the arg-max density class under the learning scaling.

Decided structural clauses:
 D1 no result of a pure, value-returning DataSet method is dropped (expression-statement call)
 D2 the scaling attributes are fixed at learning (init-only) and _internal_scaling re-applies exactly the
    shift/factor/shift triple that learning applied, with the same constants
 D3 _classificate evaluates every classifier on the same samples and takes the arg-max over the class axis
 D4 the evaluation summaries are computed from the same two sequences and the same total
 D5 earlier calculated classes are only extended by test_data
 D6 only data that went through the out-of-range removal is classified
 D7 unlabelled samples are set aside: the first component returned by split_without_labels is the unlabelled part, and both
    consumers (learning initialisation, test_data) treat the first component as omitted and classify / learn on the second
 D9 the hat evaluations behind the class densities count the centre of a hat exactly once (sa/hats.py)
 D8 the density evaluation memoises hat supports only for as long as everything the memoised value depends on stays fixed: a memo
    table whose values depend on more than its key (here: on the component grid's mesh) is created inside the call that uses it
Not decided: that the arg-max index is the label, correctness of the densities."""
import ast

from ..cfg import cfg_of, walk_local
from ..effects import effects
from ..loader import AnalysisError, src
from ..terms import Terms, terms_of, show, subterms, contains
from .. import rules as R

EXPLANATION = ("Static analysis of DEMachineLearning.Classification/DataSet: effect analysis finds the pure value-returning "
               "DataSet methods and every call site in the package that drops their result; init-only ownership of the learning "
               "scaling; sibling agreement of the scaling triples; term checks of the arg-max and of the evaluation summaries; "
               "dataflow from the out-of-range filter to the classifier. Decides these structural clauses only.")

CLS = "DEMachineLearning.Classification"
DS = "DEMachineLearning.DataSet"


def _external_root(prog, fi, expr):
    root = expr
    while isinstance(root, (ast.Attribute, ast.Subscript, ast.Call)):
        root = root.value if not isinstance(root, ast.Call) else root.func
    if isinstance(root, ast.Name):
        r = prog.resolve_name(fi.module.name, root.id)
        env_local = any(isinstance(n, ast.Name) and n.id == root.id and isinstance(n.ctx, ast.Store) for n in walk_local(fi.node))
        if root.id in fi.params or env_local:
            return False
        if r is not None and r[0] == "external":
            return True
    return False


def run(prog, ctx):
    ds = prog.cls(DS)
    cl = prog.cls(CLS)
    eff = effects(prog)

    # ------------------------------------------------------------------ D1
    pure = {}
    for name, fi in sorted(ds.methods.items()):
        if name.startswith("__") or fi.is_static and name != "list_concatenate":
            continue
        ctx.touch(fi)
        if eff.is_pure(fi) and eff.returns_value(fi):
            pure[name] = fi
    # names must resolve to pure value-returning methods in *every* package class defining them
    armed = {}
    for name, fi in pure.items():
        others = [f for f in prog.methods_named(name) if f.cls is not ds]
        if all(eff.is_pure(f) and eff.returns_value(f) for f in others):
            armed[name] = fi
    for must in ("concatenate", "copy", "split_labels", "split_pieces", "split_without_labels", "get_data"):
        if must not in armed:
            raise AnalysisError("C19.D1: DataSet.%s is no longer recognised as pure and value-returning "
                                "(effects: %s)" % (must, eff.summary(ds.methods[must]) if must in ds.methods else "missing"))
    ctx.floor("C19.D1", len(armed), 15, "pure value-returning DataSet methods")
    dropped = 0
    sites = 0
    for fi in prog.functions.values():
        for n in walk_local(fi.node):
            if isinstance(n, ast.Expr) and isinstance(n.value, ast.Call) and isinstance(n.value.func, ast.Attribute):
                c = n.value
                if c.func.attr in armed and not _external_root(prog, fi, c.func.value):
                    dropped += 1
                    ctx.violation("C19.D1", R.key_of(fi, "dropped:%s.%s" % (src(c.func.value), c.func.attr)), fi.loc(n),
                                  "the result of the pure method DataSet.%s is dropped: `%s` changes nothing (the receiver is "
                                  "not modified, the new DataSet is discarded)" % (c.func.attr, src(n)))
            if isinstance(n, ast.Call) and isinstance(n.func, ast.Attribute) and n.func.attr in armed \
                    and not _external_root(prog, fi, n.func.value):
                sites += 1
    if not dropped:
        ctx.ok("C19.D1", "package::no-dropped-pure-result", "sparseSpACE/*",
               "%d call sites of %d pure value-returning DataSet methods in the package, none dropped" % (sites, len(armed)),
               methods=sorted(armed))
    ctx.floor("C19.D1.sites", sites, 20, "call sites of pure DataSet methods")

    # ------------------------------------------------------------------ D2
    init_only = {"_data_range": {"__init__", "_initialize"}, "_scale_factor": {"__init__", "_initialize"}}
    for attr, allowed in init_only.items():
        writers = []
        for fi in prog.functions.values():
            for s in R.attribute_stores(fi.node):
                if s.attr == attr:
                    is_self = isinstance(s.base, ast.Name) and s.base.id == fi.self_name
                    if fi.cls is cl and is_self and fi.name in allowed:
                        writers.append(fi.qual)
                        continue
                    if is_self and fi.cls is not None and fi.cls is not cl and cl not in fi.cls.mro:
                        continue     # other class, own attribute of the same name
                    ctx.violation("C19.D2", R.key_of(fi, "store:" + attr), fi.loc(s.stmt),
                                  "the learning-time scaling attribute %s is written outside __init__/_initialize: %s"
                                  % (attr, src(s.stmt)))
        ctx.check(bool(writers), "C19.D2", "%s::init-only:%s" % (CLS, attr), cl.methods["_initialize"].loc(),
                  "%s is stored only by %s" % (attr, sorted(set(writers))), "no store of %s found" % attr)
    isc = prog.func(CLS + "._internal_scaling")
    ini = prog.func(CLS + "._initialize")
    ctx.touch(isc, ini)

    def triple(fi, recv_pred):
        """sequence of (method, arg term) for shift_value/scale_factor calls on a receiver"""
        tm = terms_of(fi)
        seq = []
        for st in [n for n in walk_local(fi.node) if isinstance(n, ast.Expr) and isinstance(n.value, ast.Call)]:
            c = st.value
            if isinstance(c.func, ast.Attribute) and c.func.attr in ("shift_value", "scale_factor") and recv_pred(c.func.value):
                seq.append((st.lineno, c.func.attr, tm.term(c.args[0]) if c.args else None, c))
        seq.sort(key=lambda x: x[0])
        return seq
    pname = isc.params[1]
    t_apply = triple(isc, lambda r: isinstance(r, ast.Name) and r.id == pname)
    t_learn = triple(ini, lambda r: R.self_attr(r, ini.self_name) == "_omitted_data")
    want = [("shift_value", ("neg", ("s", ("a", ("n", "self"), "_data_range"), ("c", "0")))),
            ("scale_factor", ("a", ("n", "self"), "_scale_factor"))]
    ok = len(t_apply) == 3 and [(m, t) for (_l, m, t, _c) in t_apply[:2]] == want and t_apply[2][1] == "shift_value" \
        and t_apply[2][2][0] == "c"
    ctx.check(ok, "C19.D2", R.key_of(isc, "scaling-triple"), isc.loc(t_apply[0][3]) if t_apply else isc.loc(),
              "new data is shifted by -data_range[0], scaled by the learned factor, shifted by a constant, in this order",
              "_internal_scaling no longer applies shift(-self._data_range[0]); scale(self._scale_factor); shift(const) "
              "to the data to check: found %s" % [(m, show(t) if t else None) for (_l, m, t, _c) in t_apply],
              found=[(m, show(t) if t else None) for (_l, m, t, _c) in t_apply])
    ok2 = [(m, t) for (_l, m, t, _c) in t_learn] == [(m, t) for (_l, m, t, _c) in t_apply] and len(t_learn) == 3
    ctx.check(ok2, "C19.D2", R.key_of(ini, "sibling-triple"), ini.loc(t_learn[0][3]) if t_learn else ini.loc(),
              "data set aside at learning is scaled by the same triple as later data",
              "the scaling applied at learning (%s) differs from the one re-applied to new data (%s)"
              % ([(m, show(t) if t else None) for (_l, m, t, _c) in t_learn],
                 [(m, show(t) if t else None) for (_l, m, t, _c) in t_apply]))
    # constants: scale_range((lo, hi)) at learning, shift constant == lo, factor constant == hi - lo
    tmi = terms_of(ini)
    lo = hi = None
    for c in R.calls_in(ini.node, method="scale_range"):
        if c.args and isinstance(c.args[0], ast.Tuple) and len(c.args[0].elts) == 2 and \
                all(isinstance(e, ast.Constant) for e in c.args[0].elts):
            lo, hi = c.args[0].elts[0].value, c.args[0].elts[1].value
    fac = None
    for s in R.self_stores(ini, "_scale_factor"):
        v = s.value
        if isinstance(v, ast.BinOp) and isinstance(v.op, ast.Div) and isinstance(v.left, ast.Constant):
            fac = v.left.value
            den = tmi.term(v.right)
            dr = ("a", ("n", "self"), "_data_range")
            okden = den == ("op", "Sub", (("s", dr, ("c", "1")), ("s", dr, ("c", "0"))))
            ctx.check(okden, "C19.D2", R.key_of(ini, "factor-denominator"), ini.loc(s.stmt),
                      "user-range scale factor divides by data_range[1] - data_range[0]",
                      "scale factor denominator is %s, not self._data_range[1] - self._data_range[0]" % show(den))
    shift_c = None
    if len(t_apply) == 3 and t_apply[2][2][0] == "c":
        try:
            shift_c = float(ast.literal_eval(t_apply[2][2][1]))
        except Exception:
            shift_c = None
    okc = lo is not None and fac is not None and shift_c is not None and abs(shift_c - lo) < 1e-12 and abs((hi - lo) - fac) < 1e-12
    ctx.check(okc, "C19.D2", R.key_of(ini, "scaling-constants"), ini.loc(),
              "range (%s, %s), factor constant %s and shift constant %s are consistent" % (lo, hi, fac, shift_c),
              "learning range (%s, %s), user-range factor constant %s and re-applied shift constant %s are inconsistent "
              "(need shift == lower bound and factor == upper - lower)" % (lo, hi, fac, shift_c))

    # fixed once used: after the learning scaling read an attribute (as an operand of the scaling, or through _internal_scaling, which
    # reads all of them) no path stores that attribute again -- what stays stored is what the learning data was scaled with
    ci_ = cfg_of(ini)
    n_uses = 0
    for attr in sorted(init_only):
        use_nodes = []
        for x in walk_local(ini.node):
            if isinstance(x, ast.Attribute) and x.attr == attr and isinstance(x.ctx, ast.Load) and isinstance(x.value, ast.Name) and x.value.id == ini.self_name:
                par = getattr(x, "_parent", None)
                if isinstance(par, ast.Compare) and len(par.ops) == 1 and isinstance(par.ops[0], (ast.Is, ast.IsNot)) \
                        and any(isinstance(c_, ast.Constant) and c_.value is None for c_ in [par.left] + par.comparators):
                    continue                     # "was a range given?" is not a use of its value
                use_nodes.append((ci_.node_containing(x), "`%s`" % src(R.stmt_of(x))[:70]))
        for c_ in R.calls_in(ini.node, method="_internal_scaling"):
            use_nodes.append((ci_.node_containing(c_), "`%s` (reads every learning-time scaling attribute)" % src(c_)[:60]))
        n_uses += len(use_nodes)
        aterm = ("a", ("n", ini.self_name), attr)
        tmi_ = Terms(ini.node, max_depth=0)

        def noneness(node):
            """what the branch tests that govern this node say about `self.<attr> is None`"""
            out = set()
            for (g, _gn) in R.dominating_guards(ini, node, tmi_):
                if g[0] == "cmp" and g[1] in ("Is", "IsNot") and {g[2], g[3]} == {aterm, ("c", "None")}:
                    out.add(g[1] == "Is")
            return out
        all_stores = R.self_stores(ini, attr)
        for s_ in all_stores:
            sn = ci_.node_of(s_.stmt)
            late = []
            for (u, w) in use_nodes:
                if u is None or sn is None or u is sn or sn.idx not in ci_.reachable_after(u):
                    continue
                # correlated branches: a use under `attr is not None` and a store under `attr is None` are never on one path, provided the
                # attribute is not stored in between
                nu, ns = noneness(u), noneness(sn)
                between = [o for o in all_stores if o is not s_ and ci_.node_of(o.stmt) is not None
                           and ci_.node_of(o.stmt).idx in ci_.reachable_after(u) and sn.idx in ci_.reachable_after(ci_.node_of(o.stmt))]
                if not between and ((True in ns and False in nu) or (False in ns and True in nu)):
                    continue
                late.append(w)
            ctx.check(not late, "C19.D2", R.key_of(ini, "fixed-once-used:%s:%s" % (attr, src(s_.stmt)[:40])), ini.loc(s_.stmt),
                      "%s is not stored again after the learning scaling used it" % attr,
                      "_initialize stores %s after %s already used it: later data is scaled with other values than the learning data"
                      % (attr, late[0] if late else ""))
    ctx.floor("C19.D2.uses", n_uses, 4, "uses of the learning-time scaling attributes in _initialize")

    # ------------------------------------------------------------------ D3
    clf = prog.func(CLS + "._classificate")
    ctx.touch(clf)
    tm = Terms(clf.node)
    dparam = clf.params[1]
    withv, bare, fall = R.return_paths(clf)
    ok = bool(withv) and not bare and not fall
    detail = ""
    for r in withv:
        t = tm.term(r.ast.value)
        am = [x for x in subterms(t) if x[0] == "call" and x[1] in (("a", ("n", "np"), "argmax"), ("a", ("n", "numpy"), "argmax"))]
        if not am:
            ok = False
            detail = "no arg-max in the returned value %s" % show(t)
            continue
        a = am[0]
        kws = dict(a[3])
        comps = [x for x in subterms(a) if x[0] == "comp"]
        good = False
        for cmp_ in comps:
            body, gens = cmp_[2], cmp_[3]
            if len(gens) == 1 and gens[0][1] == ("a", ("n", "self"), "_classificators") and gens[0][2] == () \
                    and body == ("call", ("bv", "$0"), (("s", ("n", dparam), ("c", "0")),), ()):
                good = True
        transposed = any(x[0] == "call" and x[1] == ("n", "zip") and x[2] and x[2][0][0] == "star" for x in subterms(a))
        axis = kws.get("axis")
        axis_ok = (transposed and axis == ("c", "1")) or (not transposed and axis == ("c", "0"))
        if not (good and axis_ok):
            ok = False
            detail = "arg-max operand %s (axis %s, transposed=%s)" % (show(a[2][0]) if a[2] else "?", show(axis) if axis else None, transposed)
    ctx.check(ok, "C19.D3", R.key_of(clf, "argmax-over-all-classifiers"), clf.loc(),
              "every classifier is evaluated on the same samples and the arg-max is taken over the class axis",
              "_classificate does not take the arg-max over all classifiers evaluated on the samples of its argument: " + detail)

    # ------------------------------------------------------------------ D4
    for fq, seq_true, seq_calc in ((CLS + "._evaluate", None, None), (CLS + ".evaluate", None, None)):
        fi = prog.func(fq)
        ctx.touch(fi)
        tmf = Terms(fi.node)
        withv, bare, fall = R.return_paths(fi)
        dicts = [r.ast.value for r in withv if isinstance(r.ast.value, ast.Dict)]
        ok = len(dicts) == 1 and not bare and not fall
        why = ""
        if ok:
            d = {k.value: v for k, v in zip(dicts[0].keys, dicts[0].values) if isinstance(k, ast.Constant)}
            try:
                tw = tmf.term(d["Wrong mappings"])
                tt = tmf.term(d["Total mappings"])
                tp = tmf.term(d["Percentage correct"])
                tps = tmf.term(d["Percentage correct (str)"])
            except KeyError as e:
                ok = False
                why = "summary key %s missing" % e
            else:
                one = ("c", "1.0")
                pc = ("op", "Sub", (one, ("op", "Div", (tw, tt))))
                if tp != pc and tp != ("op", "Sub", (("c", "1"), ("op", "Div", (tw, tt)))):
                    ok = False
                    why = "percentage %s is not 1 - wrong/total with wrong=%s total=%s" % (show(tp), show(tw), show(tt))
                if not contains(tps, pc):
                    ok = False
                    why = why or "string percentage is not computed from the same wrong/total"
                # wrong = sum(... for x, y in zip(true_labels, calculated)) ; total = len(calculated)
                zips = [x for x in subterms(tw) if x[0] == "call" and x[1] == ("n", "zip")]
                if tw[0] != "call" or tw[1] != ("n", "sum") or len(zips) != 1 or len(zips[0][2]) != 2:
                    ok = False
                    why = why or "wrong count %s is not a sum over zip(true labels, calculated classes)" % show(tw)
                else:
                    a, b = zips[0][2]
                    if tt != ("call", ("n", "len"), (b,), ()) and tt != ("call", ("n", "len"), (a,), ()):
                        ok = False
                        why = why or "total %s is not the length of a zipped sequence (%s, %s)" % (show(tt), show(a), show(b))
                    lab = a if tt == ("call", ("n", "len"), (b,), ()) else b
                    if not (lab[0] == "s" and lab[2] == ("c", "1")):
                        ok = False
                        why = why or "the sequence compared with the calculated classes is %s, not the label component [1] of the testing data" % show(lab)
                    comp = [x for x in subterms(tw) if x[0] == "comp"]
                    if comp:
                        body = comp[0][2]
                        eq = ("cmp", "Eq", ("bv", "$0"), ("bv", "$1"))
                        neq = ("cmp", "NotEq", ("bv", "$0"), ("bv", "$1"))
                        ifs_ = comp[0][3][0][2] if comp[0][3] else ()
                        good_body = (body in (("ifexp", eq, ("c", "0"), ("c", "1")), ("ifexp", neq, ("c", "1"), ("c", "0")), neq,
                                              ("ifexp", ("not", eq), ("c", "1"), ("c", "0"))) and not ifs_) or \
                                    (body == ("c", "1") and ifs_ in ((("not", eq),), (neq,)))     # sum(1 for ... if mismatch)
                        if not good_body:
                            ok = False
                            why = why or "per-sample term %s does not count mismatches" % show(body)
                # length guard dominating
                if ok:
                    lenguard = False
                    for n in cfg_of(fi).nodes:
                        if n.kind == "test":
                            t = tmf.term(n.ast)
                            if t[0] == "cmp" and t[1] == "NotEq" and tt in (t[2], t[3]):
                                # the True edge must raise
                                lenguard = True
                    if not lenguard:
                        ok = False
                        why = "no length check between testing data and calculated classes before the summary"
        else:
            why = "not exactly one dictionary returned on every path"
        ctx.check(ok, "C19.D4", R.key_of(fi, "summary"), fi.loc(),
                  "wrong, total and both percentages are computed from the same two sequences and the same total",
                  "evaluation summary inconsistent: " + why)

    # ------------------------------------------------------------------ D5
    td = prog.func(CLS + ".test_data")
    ctx.touch(td)
    tmt = Terms(td.node)
    sts = R.self_stores(td, "_calculated_classes_testset")
    ctx.floor("C19.D5", len(sts), 1, "stores of _calculated_classes_testset in test_data")
    old = ("a", ("n", "self"), "_calculated_classes_testset")
    for s in sts:
        t = tmt.term(s.value) if s.value is not None else None
        good = False
        if s.kind == "plain" and t is not None and t[0] == "call" and t[1] in (("a", ("n", "np"), "concatenate"), ("a", ("n", "np"), "append"),
                                                                            ("a", ("n", "np"), "hstack")):
            a0 = t[2][0] if t[2] else None
            if a0 is not None and a0[0] in ("tuple", "list") and len(a0) >= 3 and a0[1] == old:
                good = True
            if t[1][2] == "append" and len(t[2]) == 2 and t[2][0] == old:
                good = True
        ctx.check(good, "C19.D5", R.key_of(td, "extend-only"), td.loc(s.stmt),
                  "earlier calculated classes are kept as the prefix of the new array",
                  "test_data overwrites the classes calculated for earlier data: `%s`" % src(s.stmt))

    # the calculated classes and the stored testing data are two parallel sequences: wherever classes of _classificate(X) become /
    # extend the calculated classes, X is (what is appended to) the testing data, and neither happens without the other
    tdattr = ("a", ("n", "self"), "_testing_data")
    npairs = 0
    for fi in sorted(prog.cls(CLS).methods.values(), key=lambda f: f.qual):
        sts_ = R.self_stores(fi, "_calculated_classes_testset")
        if not sts_:
            continue
        tmx = Terms(fi.node, max_depth=0)
        cx = cfg_of(fi)
        for s_ in sts_:
            if s_.value is None or (isinstance(s_.value, ast.Call) and isinstance(s_.value.func, ast.Attribute) and s_.value.func.attr == "array"
                                    and not any(isinstance(y, ast.Call) and y is not s_.value for y in ast.walk(s_.value))):
                continue                                             # the empty initial value
            sn = cx.node_of(s_.stmt)
            t = R.resolve_locals(fi, tmx.term(s_.value), sn, tmx) if sn is not None else tmx.term(s_.value)
            cl_calls = [x for x in subterms(t) if x[0] == "call" and x[1][0] == "a" and x[1][2] == "_classificate" and x[2]]
            if not cl_calls:
                continue
            npairs += 1
            X = cl_calls[0][2][0]
            extends = any(x == old for x in subterms(t))
            if not extends:
                ok = X == tdattr
                why = "the classes of `%s` replace the calculated classes, but the stored testing data is self._testing_data" % show(X)
            else:
                ok = False
                why = "the classes of `%s` are appended, but the testing data is not extended by the same samples in the same step" % show(X)
                for s2 in R.self_stores(fi, "_testing_data"):
                    n2 = cx.node_of(s2.stmt)
                    if s2.value is None or n2 is None:
                        continue
                    t2 = R.resolve_locals(fi, tmx.term(s2.value), n2, tmx)
                    app = t2[0] == "call" and t2[1][0] == "a" and t2[1][2] == "concatenate" and t2[1][1] == tdattr and t2[2] and t2[2][0] == X
                    first, second = (n2, sn) if n2.idx in cx.reachable() and cx.dominates(n2, sn) else (sn, n2)
                    together = cx.dominates(first, second) and cx.post_dominates(second, first)
                    if app and together:
                        ok = True
                    elif app:
                        why = "the testing data and the calculated classes are not extended on the same paths"
                    elif t2[0] == "call" and t2[1][0] == "a" and t2[1][2] == "concatenate":
                        why = "the classes of `%s` are appended to the calculated classes, but `%s` is appended to the testing data" % (show(X), show(t2[2][0]) if t2[2] else "?")
            ctx.check(ok, "C19.D5", R.key_of(fi, "classes-paired-with-testing-data"), fi.loc(s_.stmt),
                      "calculated classes and testing data are extended by the same samples in the same step", why)
    ctx.floor("C19.D5.pairs", npairs, 2, "stores of calculated classes taken from _classificate")

    # ------------------------------------------------------------------ D7
    check_unlabelled_set_aside(prog, ctx)
    # ------------------------------------------------------------------ D8
    check_memo_lifetime(prog, ctx)
    # ------------------------------------------------------------------ D9 (shared with C16.D7 / C17.D4 / C20.D6): the class densities are
    # evaluated with the hat implementations of MachineLearning; a sample whose scaled coordinate coincides with a grid coordinate (the
    # middle value of an ordinal feature) gets density 0 for every class when a hat loses its centre, and arg-max returns class 0
    from ..hats import check_hat_centre
    ctx.floor("C19.D9", check_hat_centre(prog, ctx, "C19.D9"), 3, "hat implementations analysed for the centre rule")
    # ------------------------------------------------------------------ D10 (shared with C18.D7): re-applying the learning-time scaling to a
    # DataSet the user hands in must not write into the user's arrays (a DataSet keeps the arrays it was built from by reference): the
    # second evaluation of the same array would be shifted / scaled twice
    from .C18 import check_no_inplace_on_shared_arrays
    check_no_inplace_on_shared_arrays(prog, ctx, ds, "C19.D10")

    # ------------------------------------------------------------------ D6
    n6 = 0
    for fq in (CLS + ".__call__", CLS + ".test_data"):
        fi = prog.func(fq)
        ctx.touch(fi)
        tmf = Terms(fi.node)
        for c in R.calls_in(fi.node, method="_classificate"):
            n6 += 1
            a = c.args[0] if c.args else None
            t = tmf.term(a) if a is not None else ("?",)
            from_filter = any(x[0] == "call" and x[1] == ("a", ("n", "self"), "_internal_scaling") for x in subterms(t))
            ctx.check(from_filter, "C19.D6", R.key_of(fi, "classify-filtered"), fi.loc(c),
                      "classified data derives from _internal_scaling (out-of-range samples removed first)",
                      "`%s` classifies data that did not pass the out-of-range removal of _internal_scaling (argument: %s)"
                      % (src(c), show(t)))
    ctx.floor("C19.D6", n6, 2, "classification calls in __call__/test_data")
    # the filter itself: remove_samples is called on the returned object on every normal path
    tmi2 = Terms(isc.node)
    rms = R.calls_in(isc.node, method="remove_samples")
    withv, bare, fall = R.return_paths(isc)
    ok = len(rms) >= 1 and bool(withv) and not bare and not fall
    quant_msg = ""
    if ok:
        c = cfg_of(isc)
        rmn = R.cfg_node(isc, rms[0])
        recv = tmi2.term(rms[0].func.value)
        for r in withv:
            if not c.dominates(rmn, r) or tmi2.term(r.ast.value) != recv:
                ok = False
        # indices come from both threshold comparisons
        idx = tmi2.term(rms[0].args[0]) if rms[0].args else ("?",)
        cmps = [x for x in subterms(idx) if x[0] == "cmp" and x[1] in ("Lt", "LtE")]
        lows = [x for x in cmps if x[3][0] == "c" and x[2][0] != "c"]      # y < c
        highs = [x for x in cmps if x[2][0] == "c" and x[3][0] != "c"]     # c < y
        if not (lows and highs):
            ok = False
        # ... and each side quantifies correctly over the components of the sample: below the range if ANY component (or the
        # minimum) is below the lower threshold, above if ANY component (or the maximum) is above the upper one
        found = []

        def quant(t, q):
            if not isinstance(t, tuple) or not t:
                return
            if t[0] == "call" and t[1] in (("n", "any"), ("a", ("n", "np"), "any")):
                for x in t[2]:
                    quant(x, "any")
                return
            if t[0] == "call" and t[1] in (("n", "all"), ("a", ("n", "np"), "all")):
                for x in t[2]:
                    quant(x, "all")
                return
            if t[0] == "not":
                quant(t[1], {"any": "all", "all": "any"}.get(q, q))
                return
            if t[0] == "cmp" and t[1] in ("Lt", "LtE"):
                side = "low" if (t[3][0] == "c" and t[2][0] != "c") else "high" if (t[2][0] == "c" and t[3][0] != "c") else None
                o = t[2] if side == "low" else t[3]
                if side is not None:
                    agg = q
                    if o[0] == "call" and (o[1] in (("n", "min"), ("a", ("n", "np"), "min"), ("a", ("n", "np"), "amin"))
                                           or (o[1][0] == "a" and o[1][2] == "min")):
                        agg = "min"
                    elif o[0] == "call" and (o[1] in (("n", "max"), ("a", ("n", "np"), "max"), ("a", ("n", "np"), "amax"))
                                             or (o[1][0] == "a" and o[1][2] == "max")):
                        agg = "max"
                    found.append((side, agg))
                return
            for x in t:
                quant(x, q)
        pred = idx[3][0][2] if idx[0] == "comp" and idx[3] and idx[3][0][2] else ()
        connective_ok = True
        for x in pred:
            quant(x, None)
            if x[0] == "bool" and x[1] != "or":
                connective_ok = False
        if len(pred) > 1:
            connective_ok = False                      # several `if` clauses are a conjunction
        if found:
            if not all(a in ("any", "min") for (sd, a) in found if sd == "low") or not all(a in ("any", "max") for (sd, a) in found if sd == "high"):
                ok = False
                quant_msg = "; the comparisons quantify as %s (required: below if ANY component / the minimum is below, above if ANY component / the maximum is above)" % found
            if not connective_ok:
                ok = False
                quant_msg = "; the two range tests are not joined by `or`"
    ctx.check(ok, "C19.D6", R.key_of(isc, "out-of-range-removal"), isc.loc(rms[0]) if rms else isc.loc(),
              "every returned data set had its samples below/above the learned range removed",
              "_internal_scaling does not remove both the samples below and above the learned range from the data it returns on every path" + quant_msg)
    # the learning-time scaling is applied to data that is NOT yet scaled, and only to such data: every scaling call on the checked data set
    # is reached with the fact `not data.is_scaled()` (a set that already carries the learning scaling would be scaled twice)
    dp = isc.params[1]
    scaled_fact = ("call", ("a", ("n", dp), "is_scaled"), (), ())
    c_isc = cfg_of(isc)
    n_sc = 0
    for call_ in R.calls_in(isc.node):
        f_ = call_.func
        if isinstance(f_, ast.Attribute) and f_.attr in ("shift_value", "scale_factor", "scale_range") and isinstance(f_.value, ast.Name) and f_.value.id == dp:
            n_sc += 1
            cn_ = c_isc.node_containing(call_)
            facts = [g for (g, gn) in R.dominating_guards(isc, cn_, tmi2) if gn.kind == "test"] if cn_ is not None else []
            ctx.check(("not", scaled_fact) in facts, "C19.D6", R.key_of(isc, "scale-only-unscaled-data#%d" % n_sc), isc.loc(call_),
                      "the learning-time scaling is applied only to data that is not scaled yet",
                      "`%s` can run for a data set that is already scaled (the path does not establish `not %s.is_scaled()`): a set that carries "
                      "the learning scaling already is shifted and scaled a second time, its samples are classified at wrong positions or "
                      "removed as out of range" % (src(call_)[:80], dp))
    ctx.floor("C19.D6.scaling", n_sc, 2, "scaling calls of _internal_scaling")
    # the removal thresholds lie strictly OUTSIDE the range the learning data was scaled to: a sample on the learned extreme is mapped
    # to the end of the range only up to rounding ((max - min) * (0.99 / (max - min)) + 0.005 may be 0.9950000000000001); with thresholds
    # equal to the range ends it is removed as "out of bounds" instead of being classified
    cl = prog.cls(CLS)
    ranges = []
    for f in cl.methods.values():
        for call_ in R.calls_in(f.node, method="scale_range"):
            a0 = call_.args[0] if call_.args else None
            if isinstance(a0, (ast.Tuple, ast.List)) and len(a0.elts) == 2 and all(isinstance(e, ast.Constant) and isinstance(e.value, (int, float)) for e in a0.elts):
                ranges.append((float(a0.elts[0].value), float(a0.elts[1].value)))
    if ok and ranges:
        lo_r, hi_r = min(r[0] for r in ranges), max(r[1] for r in ranges)

        def num(t):
            try:
                return float(t[1]) if t[0] == "c" else None
            except (TypeError, ValueError):
                return None
        lo_c = [num(x[3]) for x in lows if num(x[3]) is not None]
        hi_c = [num(x[2]) for x in highs if num(x[2]) is not None]
        if lo_c and hi_c:
            okt = max(lo_c) < lo_r and min(hi_c) > hi_r
            ctx.check(okt, "C19.D6", R.key_of(isc, "thresholds-outside-learning-range"), isc.loc(rms[0]),
                      "the removal thresholds (%s, %s) lie strictly outside the learning range (%s, %s)" % (max(lo_c), min(hi_c), lo_r, hi_r),
                      "the removal thresholds (%s, %s) do not lie strictly outside the range (%s, %s) the learning data was scaled to: a sample on "
                      "the learned extreme, which the re-applied scaling maps to the range end only up to rounding, is removed instead of classified"
                      % (max(lo_c), min(hi_c), lo_r, hi_r))


def check_unlabelled_set_aside(prog, ctx):
    sw = prog.func(DS + ".split_without_labels")
    ctx.touch(sw)
    tm = Terms(sw.node, max_depth=0)
    rets = R.return_paths(sw)[0]
    order = None
    if rets and isinstance(rets[0].ast.value, ast.Tuple) and len(rets[0].ast.value.elts) == 2:
        kinds = []
        for e in rets[0].ast.value.elts:
            k = None
            if isinstance(e, ast.Name):
                b = tm.env.single(e.id)
                if b is not None and b.kind == "assign":
                    t = Terms(sw.node).term(b.value)
                    txt = show(t)
                    if "== -1" in txt or "-1 ==" in txt:
                        k = "unlabelled"
                    elif "0 <=" in txt or ">= 0" in txt:
                        k = "labelled"
            kinds.append(k)
        order = kinds
    ctx.check(order == ["unlabelled", "labelled"], "C19.D7", R.key_of(sw, "returns-unlabelled-first"), sw.loc(),
              "split_without_labels returns (unlabelled, labelled)",
              "split_without_labels returns its parts in the order %s, its consumers expect (unlabelled, labelled)" % order)
    for fq, learn_attr in ((CLS + "._initialize", "_scaled_data"), (CLS + ".test_data", None)):
        fi = prog.func(fq)
        ctx.touch(fi)
        tmf = Terms(fi.node, max_depth=0)
        calls = R.calls_in(fi.node, method="split_without_labels")
        ok = len(calls) == 1
        why = "split_without_labels is not called exactly once"
        if ok:
            par = getattr(calls[0], "_parent", None)
            ok = isinstance(par, ast.Assign) and isinstance(par.targets[0], ast.Tuple) and len(par.targets[0].elts) == 2
            why = "the two parts are not unpacked"
        if ok:
            first, second = par.targets[0].elts
            first_t, second_t = tmf.term(first), tmf.term(second)
            om = ("a", ("n", "self"), "_omitted_data")
            # first -> omitted
            if first_t == om:
                ok1 = True
            else:
                ok1 = any(x.func.attr == "concatenate" and tmf.term(x.func.value) == om and x.args and tmf.term(x.args[0]) == first_t
                          for x in R.calls_in(fi.node, method="concatenate"))
            # second -> used for learning / classification
            if learn_attr:
                ok2 = any(s.kind == "plain" and tmf.term(s.value) == second_t for s in R.self_stores(fi, learn_attr))
            else:
                ok2 = any(x.args and tmf.term(x.args[0]) == second_t for x in R.calls_in(fi.node, method="_classificate"))
            ok = ok1 and ok2
            why = "the first part is %s the omitted data, the second part is %s what is %s" % (
                "" if ok1 else "NOT", "" if ok2 else "NOT", "learned from" if learn_attr else "classified")
        ctx.check(ok, "C19.D7", R.key_of(fi, "unlabelled-set-aside"), fi.loc(),
                  "the unlabelled part goes to the omitted data, the labelled part is learned from / classified",
                  "%s: %s" % (fi.name, why))


def _names(node):
    return {x.id for x in ast.walk(node) if isinstance(x, ast.Name)}


def check_memo_lifetime(prog, ctx):
    """Memo idiom  `C[k] if k in C else E`  /  `if k in C: ... else: ... C[k] = E`  in the density evaluation
    (MachineLearning.interpolate_points_component_grid and overrides).  Let free(E) be the names E reads besides the key and self.
    The table C must not outlive any of them: C is a fresh local dict created in this call, and no name of free(E) is re-assigned
    in a loop that encloses the use but not the creation of C."""
    ml = prog.cls("GridOperation.MachineLearning")
    n = 0
    for fi in prog.overrides(ml, "interpolate_points_component_grid"):
        ctx.touch(fi)
        loops = [l for l in walk_local(fi.node) if isinstance(l, (ast.For, ast.While))]
        comp_bound = {}
        for x in walk_local(fi.node):
            if isinstance(x, (ast.ListComp, ast.GeneratorExp, ast.SetComp, ast.DictComp)):
                for g in x.generators:
                    for t in ast.walk(g.target):
                        if isinstance(t, ast.Name):
                            comp_bound[t.id] = g.iter
        for x in walk_local(fi.node):
            if not (isinstance(x, ast.IfExp) and isinstance(x.test, ast.Compare) and len(x.test.ops) == 1
                    and isinstance(x.test.ops[0], (ast.In, ast.NotIn))):
                continue
            table = x.test.comparators[0]
            key = x.test.left
            hit, miss = (x.body, x.orelse) if isinstance(x.test.ops[0], ast.In) else (x.orelse, x.body)
            if not (isinstance(hit, ast.Subscript) and ast.dump(hit.value) == ast.dump(table) and ast.dump(hit.slice) == ast.dump(key)):
                continue
            n += 1
            free = _names(miss) - _names(key) - {fi.self_name}
            free = {v for v in free if v in fi.params or any(isinstance(y, ast.Name) and y.id == v and isinstance(y.ctx, ast.Store) for y in walk_local(fi.node))}
            problems = []
            if not isinstance(table, ast.Name):
                if free:
                    problems.append("the table `%s` lives on the instance but the memoised value `%s` also depends on %s, which is not part of the key `%s`"
                                    % (src(table), src(miss), sorted(free), src(key)))
            else:
                creations = [st for st in walk_local(fi.node) if isinstance(st, ast.Assign) and any(isinstance(t, ast.Name) and t.id == table.id for t in st.targets)]
                fresh = [st for st in creations if (isinstance(st.value, ast.Dict) and not st.value.keys)
                         or (isinstance(st.value, ast.Call) and isinstance(st.value.func, ast.Name) and st.value.func.id in ("dict", "OrderedDict", "defaultdict") and not st.value.args)]
                if table.id in fi.params or not creations or len(fresh) != len(creations):
                    if free:
                        problems.append("the table `%s` is not a dict created in this call (%s) but the memoised value `%s` also depends on %s, which is not part of the key `%s`"
                                        % (table.id, [src(st) for st in creations] or "parameter / outer name", src(miss)[:80], sorted(free), src(key)))
                else:
                    for cr in fresh:
                        for l in loops:
                            inside = any(y is x for y in ast.walk(l))
                            creates_inside = any(y is cr for y in ast.walk(l))
                            if inside and not creates_inside:
                                varying = {y.id for y in ast.walk(l) if isinstance(y, ast.Name) and isinstance(y.ctx, ast.Store)} & free
                                if varying:
                                    problems.append("the memoised value depends on %s, re-assigned in the loop at line %d that the table `%s` (line %d) survives"
                                                    % (sorted(varying), l.lineno, table.id, cr.lineno))
            ctx.check(not problems, "C19.D8", R.key_of(fi, "memo-lifetime:%s" % src(table)), fi.loc(x),
                      "memo table `%s` keyed by `%s` lives no longer than the other inputs %s of its values" % (src(table), src(key), sorted(free)),
                      "; ".join(problems))
    ctx.note("C19.D8", "GridOperation.MachineLearning.interpolate_points_component_grid::memo-tables", "sparseSpACE/GridOperation.py",
             "%d memo idiom(s) analysed" % n)
