"""Receiver/argument effects of methods: which methods are *pure* (no store to the receiver's
attributes, no mutation of arguments, transitively through calls on self) and return a value."""
import ast

from .cfg import walk_local
from . import rules as R


class MethodEffects:
    def __init__(self, prog):
        self.prog = prog
        self._memo = {}

    def summary(self, fi, _stack=()):
        """dict(self_stores=set(attr), param_stores={param: set(attr)}, unknown=bool)"""
        if fi.qual in self._memo:
            return self._memo[fi.qual]
        if fi.qual in _stack:
            return {"self_stores": set(), "param_stores": {}, "unknown": False}
        sn = fi.self_name
        params = [p for p in fi.params if p != sn]
        self_st, par_st = set(), {}
        fresh = self._fresh_locals(fi)
        for s in R.attribute_stores(fi.node):
            root = s.base
            while isinstance(root, (ast.Attribute, ast.Subscript)):
                root = root.value
            if isinstance(root, ast.Name):
                if root.id == sn:
                    self_st.add(s.attr if isinstance(s.base, ast.Name) else R.attr_chain(s.base)[1] if R.attr_chain(s.base) else s.attr)
                elif root.id in params and not self._rebound(fi, root.id):
                    par_st.setdefault(root.id, set()).add(s.attr)
        # element stores / mutator calls directly on parameters:  p[i] = v ; p.append(v)
        for n in walk_local(fi.node):
            tgt = None
            if isinstance(n, (ast.Assign, ast.AugAssign)):
                ts = n.targets if isinstance(n, ast.Assign) else [n.target]
                for t in ts:
                    if isinstance(t, ast.Subscript):
                        r = t
                        while isinstance(r, ast.Subscript):
                            r = r.value
                        if isinstance(r, ast.Name) and r.id in params and not self._rebound(fi, r.id):
                            par_st.setdefault(r.id, set()).add("[]")
        # calls on self: inherit effects
        if fi.cls is not None and sn is not None:
            for c in walk_local(fi.node):
                if isinstance(c, ast.Call) and isinstance(c.func, ast.Attribute) and isinstance(c.func.value, ast.Name) \
                        and c.func.value.id == sn:
                    for tgt in self.prog.dynamic_targets(fi.cls, c.func.attr):
                        sub = self.summary(tgt, _stack + (fi.qual,))
                        self_st |= sub["self_stores"]
                        tparams = [p for p in tgt.params if p != tgt.self_name]
                        for pn, attrs in sub["param_stores"].items():
                            if pn not in tparams:
                                continue
                            idx = tparams.index(pn)
                            arg = None
                            if idx < len(c.args):
                                arg = c.args[idx]
                            else:
                                for kw in c.keywords:
                                    if kw.arg == pn:
                                        arg = kw.value
                            if arg is None:
                                continue
                            if isinstance(arg, ast.Name):
                                if arg.id == sn:
                                    self_st |= attrs
                                elif arg.id in params and not self._rebound(fi, arg.id):
                                    par_st.setdefault(arg.id, set()).update(attrs)
                                elif arg.id in fresh:
                                    pass      # mutation of an object created in this method
                                else:
                                    par_st.setdefault("?" + arg.id, set()).update(attrs)
                            elif isinstance(arg, ast.Call):
                                pass          # temporary
                            else:
                                a = R.self_attr(arg, sn)
                                if a is not None:
                                    self_st.add(a)
        res = {"self_stores": self_st, "param_stores": par_st, "unknown": False}
        self._memo[fi.qual] = res
        return res

    def _rebound(self, fi, name):
        for n in walk_local(fi.node):
            if isinstance(n, ast.Name) and isinstance(n.ctx, ast.Store) and n.id == name:
                return True
        return False

    def _fresh_locals(self, fi):
        """Locals bound only from constructor calls of package classes / literals."""
        fresh = {}
        for n in walk_local(fi.node):
            if isinstance(n, ast.Assign) and len(n.targets) == 1 and isinstance(n.targets[0], ast.Name):
                nm = n.targets[0].id
                v = n.value
                isf = isinstance(v, ast.Call) and self.prog.resolve_class_expr(fi.module.name, v.func, fi.cls) is not None
                fresh[nm] = fresh.get(nm, True) and isf
        return {k for k, v in fresh.items() if v}

    def is_pure(self, fi):
        s = self.summary(fi)
        return not s["self_stores"] and not s["param_stores"]

    def returns_value(self, fi):
        withv, bare, fall = R.return_paths(fi)
        return bool(withv) and not bare and not fall


def effects(prog):
    e = getattr(prog, "_sa_meffects", None)
    if e is None:
        e = prog._sa_meffects = MethodEffects(prog)
    return e
