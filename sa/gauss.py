"""Exactness of Gauss-Legendre rules chosen by an integer formula.

A Gauss-Legendre rule with n points integrates polynomials up to degree 2n - 1 exactly.  Where the package picks n by a formula with
integer division -- `leggauss(int((d + 2) / 2))` for the moments of the orthogonal polynomials up to degree d, `leggauss(int(p / 2) + 1)`
for the integrals of basis functions of degree p -- the rule has to be exact for the degree it is used for, for EVERY value of the
integer variables the formula mentions (subject to the loop guard relating them).  That is an arithmetic statement about the source
text and is decided here without running anything:

    n = floor(P / q) + c   with P linear in the integer variables, q a positive integer constant
    requirement   2 n - 1 >= D   with D linear

Every variable v >= 0 is written v = q t + r (r = 0 .. q-1, t >= 0).  For a fixed residue vector, floor(P / q) is linear in the t's, so
2 n - 1 - D is a linear form in non-negative integers: it is >= 0 for all of them iff its constant and all its coefficients are >= 0;
otherwise the negative constant / coefficient gives a concrete witness.  A guard `x <= y` between two variables is used by writing
y = x + s with a fresh s >= 0."""
import ast
import itertools
from fractions import Fraction

from .absint import poly_of_term
from .terms import Terms, show


def _linear(p):
    """{atom or (): Fraction} for a polynomial that is linear in single atoms, else None"""
    out = {}
    for k, c in p.terms.items():
        if k == ():
            out[()] = out.get((), Fraction(0)) + c
        elif len(k) == 1 and k[0][1] == 1:
            out[k[0][0]] = out.get(k[0][0], Fraction(0)) + c
        else:
            return None
    return out


def _points_formula(t):
    """n as (P linear dict, q, c):  n = floor(P / q) + c.  Understood: int(P / q), P // q, int(P / q) + c, P (q = 1)."""
    c = Fraction(0)
    if t[0] == "op" and t[1] == "Add" and len(t[2]) == 2:
        consts = [x for x in t[2] if x[0] == "c"]
        rest = [x for x in t[2] if x[0] != "c"]
        if len(consts) == 1 and len(rest) == 1:
            c = Fraction(consts[0][1])
            t = rest[0]
    if t[0] == "call" and t[1] == ("n", "int") and len(t[2]) == 1:
        t = t[2][0]
        floor_it = True
    else:
        floor_it = False
    q = 1
    if t[0] == "op" and t[1] in ("Div", "FloorDiv") and len(t[2]) == 2 and t[2][1][0] == "c":
        if t[1] == "Div" and not floor_it:
            return None
        try:
            q = int(t[2][1][1])
        except ValueError:
            return None
        t = t[2][0]
    if q <= 0:
        return None
    try:
        P = _linear(poly_of_term(t))
    except Exception:                                            # noqa: BLE001
        return None
    if P is None or any(v.denominator != 1 for v in P.values()):
        return None
    return P, q, c


def decide(n_term, degree_term, guards=()):
    """(holds, detail).  guards: [(smaller atom, larger atom[, offset])] meaning smaller + offset <= larger (offset 0 or 1)."""
    f = _points_formula(n_term)
    if f is None:
        return None, "the number of points `%s` is not of the form int(<linear> / <constant>) + <constant>" % show(n_term)
    P, q, c = f
    try:
        D = _linear(poly_of_term(degree_term))
    except Exception:                                            # noqa: BLE001
        D = None
    if D is None:
        return None, "the degree `%s` is not linear" % show(degree_term)
    atoms = sorted({a for a in list(P) + list(D) if a != ()}, key=repr)
    # y = x + s for guards x <= y
    slack = {}
    offs = {}
    for g_ in guards:
        x, y = g_[0], g_[1]
        if x in atoms and y in atoms and y not in slack and x not in slack:
            slack[y] = x
            offs[y] = Fraction(g_[2] if len(g_) > 2 else 0)
    free = [a for a in atoms if a not in slack] + [("slack", y) for y in slack]

    def expand(lin):
        """rewrite over the free variables"""
        out = {(): lin.get((), Fraction(0))}
        for a, co in lin.items():
            if a == ():
                continue
            if a in slack:
                out[slack[a]] = out.get(slack[a], Fraction(0)) + co
                out[("slack", a)] = out.get(("slack", a), Fraction(0)) + co
                out[()] = out.get((), Fraction(0)) + co * offs[a]
            else:
                out[a] = out.get(a, Fraction(0)) + co
        return out
    Pe, De = expand(P), expand(D)
    for residues in itertools.product(range(q), repeat=len(free)):
        r = dict(zip(free, residues))
        # v = q t + r
        c0 = Pe.get((), Fraction(0)) + sum(Pe.get(v, 0) * r[v] for v in free)
        floor_c0 = c0.numerator // c0.denominator // q if c0.denominator == 1 else None
        if floor_c0 is None:
            return None, "non-integer constant"
        # floor(P / q) = sum(Pe[v] * t_v) + floor(c0 / q)      (Pe[v] integer, P = q * sum(Pe[v] t_v) + c0)
        n_coef = {v: Pe.get(v, Fraction(0)) for v in free}
        n_const = Fraction(int(c0) // q) + c
        # E = 2 n - 1 - D  with D = sum(De[v] * (q t_v + r_v)) + De[()]
        E_const = 2 * n_const - 1 - De.get((), Fraction(0)) - sum(De.get(v, 0) * r[v] for v in free)
        E_coef = {v: 2 * n_coef[v] - De.get(v, Fraction(0)) * q for v in free}
        bad = [v for v in free if E_coef[v] < 0]
        if E_const < 0 or bad:
            t_w = {v: (1 if v in bad else 0) for v in free}
            vals = {v: q * t_w[v] + r[v] for v in free}
            concrete = {}
            for a in atoms:
                concrete[a] = vals[slack[a]] + vals[("slack", a)] + int(offs[a]) if a in slack else vals[a]
            npts = sum(P.get(a, 0) * concrete[a] for a in atoms) + P.get((), 0)
            npts = int(npts) // q + int(c)
            deg = sum(D.get(a, 0) * concrete[a] for a in atoms) + D.get((), 0)
            return False, "for %s the rule has %d points (exact to degree %d) but degree %s is needed" % (
                ", ".join("%s = %s" % (show(a), concrete[a]) for a in atoms), npts, 2 * npts - 1, deg)
    return True, "2 * (%s) - 1 >= %s for all non-negative integers (checked per residue class mod %d)" % (show(n_term), show(degree_term), q)



def check_sites(prog, ctx, rule, module, want_kind):
    """want_kind 'moments': sites where the rule integrates the orthogonal polynomials up to the loop's degree (degree = K - 1 for the
    moments comprehension over range(K) that multiplies by the rule's weights); 'basis': sites where a grid of polynomial degree self.p
    stores the rule for its basis integrals (degree = self.p)."""
    from . import rules as R
    from .cfg import walk_local, cfg_of
    n = 0
    for fi in sorted(prog.functions.values(), key=lambda f: f.qual):
        if fi.module.name != module or fi.cls is None:
            continue
        calls = [x for x in R.calls_in(fi.node, method="leggauss") if x.args]
        if not calls:
            continue
        tm = Terms(fi.node, max_depth=0)
        c = cfg_of(fi)
        for call in calls:
            cn = c.node_containing(call)
            n_term = R.resolve_locals(fi, tm.term(call.args[0]), cn, tm) if cn is not None else tm.term(call.args[0])
            par = getattr(call, "_parent", None)
            degree = None
            use_node = None
            guards = []
            if want_kind == "moments":
                if not (isinstance(par, ast.Assign) and isinstance(par.targets[0], ast.Tuple) and len(par.targets[0].elts) == 2
                        and all(isinstance(e, ast.Name) for e in par.targets[0].elts)):
                    continue
                wname = par.targets[0].elts[1].id
                for comp in [x for x in walk_local(fi.node) if isinstance(x, (ast.ListComp, ast.GeneratorExp))]:
                    g = comp.generators[0]
                    if len(comp.generators) == 1 and isinstance(g.iter, ast.Call) and isinstance(g.iter.func, ast.Name) and g.iter.func.id == "range" \
                            and len(g.iter.args) == 1 and any(isinstance(y, ast.Name) and y.id == wname for y in ast.walk(comp.elt)):
                        k_t = R.resolve_locals(fi, tm.term(g.iter.args[0]), c.node_containing(comp), tm)
                        degree = ("op", "Sub", (k_t, ("c", "1")))
                        use_node = c.node_containing(comp)
                if degree is None:
                    continue
                # what is known where the rule is used (the loop guard relates the degree to its bound), and where it is chosen
                for (gd, gn) in R.dominating_guards(fi, use_node, tm) + R.dominating_guards(fi, cn, tm):
                    for lit in (gd[2] if gd[0] == "bool" and gd[1] == "and" else (gd,)):
                        if lit[0] == "cmp" and lit[1] in ("LtE", "Lt"):
                            guards.append((lit[2], lit[3], 1 if lit[1] == "Lt" else 0))
            else:
                # stored on the instance by a class that has a polynomial degree `p`
                if not (isinstance(par, ast.Assign) and any(isinstance(y, ast.Attribute) for y in ast.walk(par.targets[0]))):
                    continue
                if not any(isinstance(y, ast.Attribute) and y.attr == "p" and isinstance(y.value, ast.Name) and y.value.id == fi.self_name for y in ast.walk(call.args[0])):
                    continue
                degree = ("a", ("n", fi.self_name), "p")
            ok, detail = decide(n_term, degree, guards)
            n += 1
            if ok is None:
                ctx.note(rule, R.key_of(fi, "gauss-rule-exact#%d" % n), fi.loc(call), "not decided: " + detail)
                continue
            ctx.check(ok, rule, R.key_of(fi, "gauss-rule-exact:%s" % ("moments" if want_kind == "moments" else "degree-p")), fi.loc(call),
                      "the Gauss-Legendre rule `%s` is exact for the degree it is used for: %s" % (show(n_term)[:40], detail),
                      "the Gauss-Legendre rule with `%s` points is not exact for the polynomials it integrates: %s" % (show(n_term)[:60], detail))
    return n
