def V(id, kind, old, new, rule=None, file="Grid.py", **kw):
    d = {"id": id, "prop": "C15", "kind": kind, "file": file, "old": old, "new": new}
    if rule:
        d["rule"] = rule
    d.update(kw)
    return d

GO = "GridOperation.py"
VARIANTS = [
    V("C15-b01-no-clipping", "break",
      "        for i in range(num_points):\n            if weights[i] >= 0.0:\n                continue\n            assert -weights[i] < 10 ** -5, \"calculated negative weight\"\n            weights[i] = 0.0\n", "", "C15.D1"),
    V("C15-b02-split-sum-wrong", "break", "            w1 = moment_0 - w2\n", "            w1 = moment_0 + w2\n", "C15.D2"),
    V("C15-b03-no-renormalisation", "break", "            f = 1.0 / sum(weights[1:-1])\n            weights[1:-1] = [f * v for v in weights[1:-1]]\n", "", "C15.D3"),
    V("C15-b04-variance-flip-removed", "break",
      "        for i, v in enumerate(variance):\n            if v < 0.0:\n                # When the variance is zero, it can be set to something negative\n                # because of numerical errors\n                variance[i] = -v\n", "", "C15.D4", file=GO),
    V("C15-b05-moment-order-swapped", "break", "        return self.get_moments_Function([1, 2])", "        return self.get_moments_Function([2, 1])", "C15.D5", file=GO),
    V("C15-b06-clip-only-inner", "break", "        for i in range(num_points):\n            if weights[i] >= 0.0:", "        for i in range(1, num_points - 1):\n            if weights[i] >= 0.0:", "C15.D1"),
    V("C15-b07-normalise-before-zeroing", "break",
      "            weights[0] = 0.0\n            weights[-1] = 0.0\n            f = 1.0 / sum(weights[1:-1])\n",
      "            f = 1.0 / sum(weights)\n            weights[0] = 0.0\n            weights[-1] = 0.0\n", "C15.D3"),
    V("C15-b08-w1-before-w2-fixed", "break",
      "            w1 = moment_0 - w2\n            # ~ print(\"dd\", w1, w2, x1, x2, moment_0, moment_1)\n",
      "            w1 = moment_0 - w2\n            if w2 < 0:\n                w2 = 0.0\n", "C15.D2"),
    V("C15-b09-consumer-takes-wrong-half", "break",
      "            expectation = integral[:output_dim]\n            expectation_of_squared = integral[output_dim:]\n",
      "            expectation = integral[output_dim:]\n            expectation_of_squared = integral[:output_dim]\n", "C15.D5", file=GO),
    V("C15-b10-fallback-unconditional", "break", "        if not a < mid < b:\n            print(\"Could not calculate the weighted middle\")\n            mid = 0.5 * (a + b)\n",
      "        if not a <= mid < b:\n            print(\"Could not calculate the weighted middle\")\n        if isinf(cdf_mid) or not a < mid:\n            mid = 0.5 * (a + b)\n", "C15.D6"),
    V("C15-b11-variance-formula", "break", "        variance = [mom2[i] - ex * ex for i, ex in enumerate(expectation)]", "        variance = [mom2[i] - ex for i, ex in enumerate(expectation)]", "C15.D4", file=GO),
    V("C15-b12-midpoint-mixed-distribution", "break", "        return self.get_middle_weighted(a, b, distr.cdf, distr.ppf)", "        return self.get_middle_weighted(a, b, distr.cdf, self.distributions[0].ppf)", "C15.D6"),
    V("C15-b13-second-weight-to-same-entry", "break", "            weights[i] += w1\n            weights[i+1] += w2\n", "            weights[i] += w1\n            weights[i] += w2\n", "C15.D2"),
    V("C15-b14-moment-over-other-interval", "break", "            moment_0 = distribution.get_zeroth_moment(x1, x2)\n", "            moment_0 = distribution.get_zeroth_moment(a, x2)\n", "C15.D2"),
    V("C15-b15-moment-cache-keyed-by-left-end", "break", "        cache = self.cached_moments[1]\n        if (x1, x2) in cache:\n            return cache[(x1, x2)]",
      "        cache = self.cached_moments[1]\n        if x1 in cache:\n            return cache[x1]", "C15.D7", file=GO),
    V("C15-b16-moments-share-cache", "break", "        cache = self.cached_moments[1]\n", "        cache = self.cached_moments[0]\n", "C15.D7", file=GO),
    V("C15-b17-zeroth-moment-orientation", "break", "        moment_0 = self.cdf(x2) - self.cdf(x1)", "        moment_0 = self.cdf(x1) - self.cdf(x2)", "C15.D7", file=GO),
    # neutral
    V("C15-n01-clip-form-if", "neutral",
      "            if weights[i] >= 0.0:\n                continue\n            assert -weights[i] < 10 ** -5, \"calculated negative weight\"\n            weights[i] = 0.0\n",
      "            if weights[i] < 0.0:\n                assert -weights[i] < 10 ** -5, \"calculated negative weight\"\n                weights[i] = 0.0\n"),
    V("C15-n02-normalise-division", "neutral", "            f = 1.0 / sum(weights[1:-1])\n            weights[1:-1] = [f * v for v in weights[1:-1]]\n",
      "            total_inner = sum(weights[1:-1])\n            weights[1:-1] = [v / total_inner for v in weights[1:-1]]\n"),
    V("C15-n03-variance-abs", "neutral", "                variance[i] = -v\n", "                variance[i] = abs(v)\n", file=GO),
    V("C15-n04-rename-moment", "neutral", "moment_0", "mass", all=True),
    V("C15-b18-closure-late-binding", "break", "                    def cdf(x, _mu=mu, _sigma=sigma):\n                        return sps.norm.cdf(x, loc=_mu, scale=_sigma)",
      "                    def cdf(x):\n                        return sps.norm.cdf(x, loc=mu, scale=sigma)", "C15.D8", file=GO),
    V("C15-b19-fevals-cached-forever", "break", "            self.f_evals = [self.f_model(coord) for coord in self.nodes]\n        else:\n            self.f_evals = [self.f_model(coord) for coord in self.nodes]",
      "        if self.f_evals is None:\n            self.f_evals = [self.f_model(coord) for coord in self.nodes]", "C15.D9", file=GO),
    V("C15-n05-fevals-single-store", "neutral", "            self.f_evals = [self.f_model(coord) for coord in self.nodes]\n        else:\n            self.f_evals = [self.f_model(coord) for coord in self.nodes]",
      "        self.f_evals = [self.f_model(coord) for coord in self.nodes]", file=GO),
    V("C15-n06-closure-default-renamed", "neutral", "                    def cdf(x, _mu=mu, _sigma=sigma):\n                        return sps.norm.cdf(x, loc=_mu, scale=_sigma)",
      "                    def cdf(x, m=mu, s=sigma):\n                        return sps.norm.cdf(x, loc=m, scale=s)", file=GO),
    # whole-array forms of the variance and D10 (received objects are not modified)
    V("C15-b40-variance-computed-in-place-on-the-received-moments", "break", "        expectation = mom1\n        variance = [mom2[i] - ex * ex for i, ex in enumerate(expectation)]\n        for i, v in enumerate(variance):\n            if v < 0.0:\n                # When the variance is zero, it can be set to something negative\n                # because of numerical errors\n                variance[i] = -v\n",
      "        expectation = np.asarray(mom1)\n        variance = np.asarray(mom2)\n        variance -= expectation * expectation\n        np.abs(variance, out=variance)\n", "C15.D10", file=GO),
    V("C15-b41-array-variance-wrong-formula", "break", "        expectation = mom1\n        variance = [mom2[i] - ex * ex for i, ex in enumerate(expectation)]\n        for i, v in enumerate(variance):\n            if v < 0.0:\n                # When the variance is zero, it can be set to something negative\n                # because of numerical errors\n                variance[i] = -v\n",
      "        expectation = np.asarray(mom1)\n        variance = np.abs(np.asarray(mom2) - expectation)\n", "C15.D4", file=GO),
    V("C15-b42-array-variance-signed", "break", "        expectation = mom1\n        variance = [mom2[i] - ex * ex for i, ex in enumerate(expectation)]\n        for i, v in enumerate(variance):\n            if v < 0.0:\n                # When the variance is zero, it can be set to something negative\n                # because of numerical errors\n                variance[i] = -v\n",
      "        expectation = np.asarray(mom1)\n        variance = np.asarray(mom2) - expectation * expectation\n", "C15.D4", file=GO),
    V("C15-b43-expectation-scaled-in-place", "break", "        expectation = mom1\n", "        expectation = mom1\n        expectation *= 1.0\n", "C15.D10", file=GO),
    V("C15-n40-array-variance", "neutral", "        expectation = mom1\n        variance = [mom2[i] - ex * ex for i, ex in enumerate(expectation)]\n        for i, v in enumerate(variance):\n            if v < 0.0:\n                # When the variance is zero, it can be set to something negative\n                # because of numerical errors\n                variance[i] = -v\n",
      "        expectation = np.asarray(mom1)\n        variance = np.abs(np.asarray(mom2) - expectation * expectation)\n", file=GO),
    V("C15-n41-array-variance-on-a-copy", "neutral", "        expectation = mom1\n        variance = [mom2[i] - ex * ex for i, ex in enumerate(expectation)]\n        for i, v in enumerate(variance):\n            if v < 0.0:\n                # When the variance is zero, it can be set to something negative\n                # because of numerical errors\n                variance[i] = -v\n",
      "        expectation = np.asarray(mom1)\n        variance = np.array(mom2, dtype=float)\n        variance -= expectation * expectation\n        variance = np.abs(variance)\n", file=GO),
    # D11: the key under which distribution objects are shared determines all their inputs
    V("C15-b50-distributions-shared-by-description-only", "break", "            distr_key = (distr_info, a[d], b[d])\n", "            distr_key = distr_info\n", "C15.D11", file=GO),
    V("C15-b51-key-lacks-upper-end", "break", "            distr_key = (distr_info, a[d], b[d])\n", "            distr_key = (distr_info, a[d])\n", "C15.D11", file=GO),
    V("C15-n50-key-nested-interval", "neutral", "            distr_key = (distr_info, a[d], b[d])\n", "            distr_key = (distr_info, (a[d], b[d]))\n", file=GO),
]
