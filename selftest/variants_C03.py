def V(id, kind, old, new, rule=None, file="spatiallyAdaptiveSingleDimension2.py", **kw):
    d = {"id": id, "prop": "C03", "kind": kind, "file": file, "old": old, "new": new}
    if rule:
        d["rule"] = rule
    d.update(kw)
    return d


VARIANTS = [
    V("C03-b01-max-of-levelvec", "break", "                if (refineObj.levels[1] <= max(levelvec[d] - subtraction_value, 1)):",
      "                if (refineObj.levels[1] <= max(max(levelvec) - subtraction_value, 1)):", "C03.D1"),
    V("C03-b02-levelvec-first-dimension", "break", "                if (refineObj.levels[1] <= max(levelvec[d] - subtraction_value, 1)):",
      "                if (refineObj.levels[1] <= max(levelvec[0] - subtraction_value, 1)):", "C03.D1"),
    V("C03-b03-bound-zero", "break", "                if (refineObj.levels[1] <= max(levelvec[d] - subtraction_value, 1)):",
      "                if (refineObj.levels[1] <= max(levelvec[d] - subtraction_value, 0)):", "C03.D2"),
    V("C03-b04-sort-false", "break", "        self.refinement.apply_remove(sort=True)\n", "        self.refinement.apply_remove(sort=False)\n", "C03.D3"),
    V("C03-b05-no-scheme-refresh", "break", "        self.scheme = self.combischeme.getCombiScheme(do_print=False)\n\n    def compute_error_estimates_dimension_wise",
      "\n    def compute_error_estimates_dimension_wise", "C03.D4"),
    V("C03-b06-cache-not-reset", "break", "        self.subtraction_value_cache = {}\n        self.max_level_dict = {}\n        self.refinement.apply_remove(sort=True)",
      "        self.subtraction_value_cache = {}\n        self.refinement.apply_remove(sort=True)", "C03.D5"),
    V("C03-b07-modify-uses-sum", "break", "        subtraction_value = min(subtraction_value, levelvec[d] - self.lmin[d])\n",
      "        subtraction_value = min(subtraction_value, sum(levelvec) - self.dim * self.lmin[d])\n", "C03.D1"),
    V("C03-b08-scheme-refresh-only-on-raise", "break",
      "                refinement_container_d.update_values(update_d)\n        self.scheme = self.combischeme.getCombiScheme(do_print=False)\n",
      "                refinement_container_d.update_values(update_d)\n                if d == 0:\n                    self.scheme = self.combischeme.getCombiScheme(do_print=False)\n", "C03.D4"),
    V("C03-b09-sorted-by-end-descending", "break", "            self.refinementObjects = sorted(self.refinementObjects, key=attrgetter('start'))",
      "            self.refinementObjects = sorted(self.refinementObjects, key=attrgetter('start'), reverse=True)", "C03.D3", file="RefinementContainer.py"),
    V("C03-b10-left-end-conditional", "break",
      "            points_dim.append(refine_container_objects[0].start)\n            points_level_dim.append(refine_container_objects[0].levels[0])\n",
      "            if self.grid.boundary:\n                points_dim.append(refine_container_objects[0].start)\n            points_level_dim.append(refine_container_objects[0].levels[0])\n", "C03.D2"),
    V("C03-b11-tests-next-interval-level", "break", "                if (refineObj.levels[1] <= max(levelvec[d] - subtraction_value, 1)):",
      "                if (next_refineObj is not None and next_refineObj.levels[0] <= max(levelvec[d] - subtraction_value, 1)):", "C03.D2"),
    V("C03-b12-strict-selection", "break", "                if (refineObj.levels[1] <= max(levelvec[d] - subtraction_value, 1)):",
      "                if (refineObj.levels[1] < max(levelvec[d] - subtraction_value, 1)):", "C03.D2"),
    V("C03-b13-cache-kept-in-do-refinement", "break", "        refinement_dim = position[0]\n",
      "        refinement_dim = position[0]\n        self.max_level_dict[tuple((refinement_dim, position[1]))] = area.levels[1] + 1\n", "C03.D5"),
    V("C03-b14-passes-other-dimension", "break",
      "subtraction_value = self.get_subtraction_value(refineObj, refineContainer, i, max_coarsenings, d, levelvec)",
      "subtraction_value = self.get_subtraction_value(refineObj, refineContainer, i, max_coarsenings, d, levelvec[::-1])", "C03.D1"),
    # neutral
    V("C03-n01-bound-temporary", "neutral", "                if (refineObj.levels[1] <= max(levelvec[d] - subtraction_value, 1)):",
      "                level_bound = max(levelvec[d] - subtraction_value, 1)\n                if (refineObj.levels[1] <= level_bound):"),
    V("C03-n02-flipped", "neutral", "                if (refineObj.levels[1] <= max(levelvec[d] - subtraction_value, 1)):",
      "                if (max(1, levelvec[d] - subtraction_value) >= refineObj.levels[1]):"),
    V("C03-n03-sort-positional", "neutral", "        self.refinement.apply_remove(sort=True)\n", "        self.refinement.apply_remove(True)\n"),
    V("C03-n04-caches-reset-later", "neutral",
      "        self.subtraction_value_cache = {}\n        self.max_level_dict = {}\n        self.refinement.apply_remove(sort=True)\n",
      "        self.refinement.apply_remove(sort=True)\n        self.max_level_dict = {}\n        self.subtraction_value_cache = {}\n"),
    # D9: no call bypasses the strategy's own override
    V("C03-b70-super-call-bypasses-own-interpolate-points", "break", "            return super().interpolate_grid_component(grid_coordinates, component_grid)\n",
      "            return super().interpolate_points(list(get_cross_product(grid_coordinates)), component_grid)\n", "C03.D9"),
    V("C03-b71-explicit-base-call-bypasses-own-interpolate-points", "break", "            return super().interpolate_grid_component(grid_coordinates, component_grid)\n",
      "            return SpatiallyAdaptivBase.interpolate_points(self, list(get_cross_product(grid_coordinates)), component_grid)\n", "C03.D9"),
    V("C03-n70-explicit-base-call-of-the-same-method", "neutral", "            return super().interpolate_grid_component(grid_coordinates, component_grid)\n",
      "            return SpatiallyAdaptivBase.interpolate_grid_component(self, grid_coordinates, component_grid)\n"),
]
