# Self-test variants for C12 (Function.py).  kind=break must be reported by `rule`; kind=neutral must stay silent.
def V(id, kind, old, new, rule=None, file="Function.py", **kw):
    d = {"id": id, "prop": "C12", "kind": kind, "file": file, "old": old, "new": new}
    if rule:
        d["rule"] = rule
    d.update(kw)
    return d


VARIANTS = [
    V("C12-b01-revert-coords-fix", "break",
      "            coords = tuple(coordinates)\n            if self.do_cache:\n",
      "            if self.do_cache:\n                coords = tuple(coordinates)\n", "C12.D1"),
    V("C12-b02-revert-empty-guard", "break",
      "        if len(coordinates) == 0:\n            # empty batch: no evaluation, result shaped by the declared output length\n"
      "            return np.empty((0, self.output_length()))\n", "", "C12.D2"),
    V("C12-b03-revert-constantvalue-return", "break",
      "        integral *= self.value\n        return integral\n", "        integral *= self.value\n", "C12.D3"),
    V("C12-b04-store-under-other-key", "break",
      "                if self.do_cache:\n                    self.f_dict[coords] = f_value\n",
      "                if self.do_cache:\n                    self.f_dict[tuple(coordinates[::-1])] = f_value\n", "C12.D4"),
    V("C12-b05-vectorised-ignores-offset", "break",
      "        result = 2 * math.pi * self.offset + np.inner(coordinates, self.coeffs)\n",
      "        result = np.inner(coordinates, self.coeffs)\n", "C12.D6"),
    V("C12-b06-batch-shape", "break",
      "f_values.reshape((len(coordinates), self.output_length()))", "f_values.reshape((len(coordinates), 1))", "C12.D5"),
    V("C12-b07-reset-keeps-dict", "break",
      "        self.old_f_dict = {}\n        self.f_dict = {}\n", "        self.old_f_dict = {}\n", "C12.D4"),
    V("C12-b08-override-returns-on-one-branch", "break",
      "(end[d]**(self.degree+1)/(self.degree + 1) - start[d]**(self.degree+1)/(self.degree + 1))\n        return result\n",
      "(end[d]**(self.degree+1)/(self.degree + 1) - start[d]**(self.degree+1)/(self.degree + 1))\n        if self.degree > 0:\n            return result\n",
      "C12.D3"),
    V("C12-b09-batch-zip-misaligned", "break",
      "self.f_dict.update(zip(coordinates, f_values))", "self.f_dict.update(zip(coordinates[::-1], f_values))", "C12.D4"),
    V("C12-b10-old-dict-hit-stored-under-other-point", "break",
      "                    f_value = self.old_f_dict.get(coords, None)\n",
      "                    f_value = self.old_f_dict.get(coords[:-1], None)\n", "C12.D4"),
    V("C12-b11-undefined-in-override", "break",
      "    def eval(self, coordinates):\n        result = 2 * math.pi * self.offset\n",
      "    def eval(self, coordinates):\n        if self.offset != 0:\n            result = 2 * math.pi * self.offset\n", "C12.D1"),
    V("C12-b12-outside-writer", "break",
      "    def get_f_dict_size(self) -> int:\n",
      "    def forget(self, p):\n        self.f_dict.pop(p, None)\n\n    def get_f_dict_size(self) -> int:\n", "C12.D4"),
    V("C12-b13-productpeak-vectorised-ignores-midpoint", "break",
      "np.prod(self.coeffs ** (-2) + (coordinates - self.midPoint) ** (2), axis=-1)",
      "np.prod(self.coeffs ** (-2) + (coordinates) ** (2), axis=-1)", "C12.D6"),
    V("C12-b14-single-length-check-dropped", "break",
      "            assert len(f_value) == self.output_length(), \"Wrong output_length()! Adjust the output length in your function!\"\n",
      "", "C12.D5"),
    V("C12-b15-revert-output-length-fix", "break",
      "        return [np.exp(result), np.exp(result)]\n\n    def output_length(self) -> int:\n        return 2\n",
      "        return [np.exp(result), np.exp(result)]\n", "C12.D8"),
    V("C12-b16-single-result-aliases-cache", "break", "            return np.array(f_value)\n", "            return np.asarray(f_value)\n", "C12.D7"),
    V("C12-b17-vectorised-boundary-side", "break", "        filter = np.all(coordinates < self.border, axis=-1)", "        filter = np.all(coordinates <= self.border, axis=-1)", "C12.D6"),
    # ------------------------------------------------------------------ neutral
    V("C12-n01-rename-coords", "neutral", "coords", "pt_key", file="Function.py", all=True),
    V("C12-n02-guard-spelled-differently", "neutral",
      "        if len(coordinates) == 0:\n", "        if not len(coordinates) > 0:\n"),
    V("C12-n03-temporary-for-length", "neutral",
      "            f_values = f_values.reshape((len(coordinates), self.output_length()))\n",
      "            n_points = len(coordinates)\n            n_out = self.output_length()\n            f_values = f_values.reshape((n_points, n_out))\n"),
    V("C12-n04-offset-temporary", "neutral",
      "        result = 2 * math.pi * self.offset + np.inner(coordinates, self.coeffs)\n",
      "        off = self.offset\n        result = np.inner(coordinates, self.coeffs) + 2 * math.pi * off\n"),
    V("C12-n05-inverted-cache-test", "neutral",
      "                if self.do_cache:\n                    self.f_dict[coords] = f_value\n",
      "                if not self.do_cache:\n                    pass\n                else:\n                    self.f_dict[coords] = f_value\n"),
    V("C12-n06-reshape-minus-one", "neutral",
      "f_values.reshape((len(coordinates), self.output_length()))", "f_values.reshape((-1, self.output_length()))"),
    V("C12-n07-logging-added", "neutral",
      "        f_value = None\n        if len(coordinates) == 0:\n",
      "        f_value = None\n        self.log.debug(\"evaluating %s\", type(self).__name__)\n        if len(coordinates) == 0:\n"),
    V("C12-n08-new-function-with-integral", "neutral",
      "class FunctionDiagonalDiscont(Function):\n",
      "class FunctionUnit(Function):\n    def eval(self, coordinates):\n        return 1.0\n\n"
      "    def getAnalyticSolutionIntegral(self, start, end):\n        return float(np.prod(np.array(end) - np.array(start)))\n\n\n"
      "class FunctionDiagonalDiscont(Function):\n"),
    # round-3 rules
    V("C12-n60-clip-on-a-copy", "neutral", None, None, edits=[
        {"file": "Function.py", "old": "        end = list(end)\n", "new": "        end = np.array(end, dtype=float)\n", "all": True}]),
    V("C12-b60-clip-on-the-callers-array", "break", None, None, "C12.D11", edits=[
        {"file": "Function.py", "old": "        end = list(end)\n", "new": "        end = np.asarray(end)\n", "all": True}]),
]
