def V(id, kind, old, new, rule=None, file="RefinementObject.py", **kw):
    d = {"id": id, "prop": "C06", "kind": kind, "file": file, "old": old, "new": new}
    if rule:
        d["rule"] = rule
    d.update(kw)
    return d

CH1 = "newObjects.append(RefinementObjectSingleDimension(self.start, mid, self.this_dim, self.dim, list((self.levels[0], newLevel)), grid=self.grid, coarsening_level=coarsening_value, a=self.a, b=self.b, chebyshev=self.chebyshev))"
CH2 = "newObjects.append(RefinementObjectSingleDimension(mid, self.end, self.this_dim, self.dim, list((newLevel, self.levels[1])), grid=self.grid, coarsening_level=coarsening_value, a=self.a, b=self.b, chebyshev=self.chebyshev))"
SD = "spatiallyAdaptiveSingleDimension2.py"
RC = "RefinementContainer.py"

VARIANTS = [
    V("C06-b01-second-child-starts-at-start", "break", CH2, CH2.replace("(mid, self.end,", "(self.start, self.end,"), "C06.D1"),
    V("C06-b02-level-plus-one-on-one-side", "break", CH2, CH2.replace("list((newLevel, self.levels[1]))", "list((newLevel + 1, self.levels[1]))"), "C06.D1"),
    V("C06-b03-no-prepare-remove", "break", "        self.prepare_remove(object_id)\n", "", "C06.D2", file=RC),
    V("C06-b04-selection-strict", "break", "            if self.refinementObjects[i].benefit >= tolerance:", "            if self.refinementObjects[i].benefit > tolerance:", "C06.D5", file=RC),
    V("C06-b05-do-refinement-true", "break", "        lmaxChange = self.refinement.refine(position)\n        # the following is currently solved by initializing all data structures anew before each evalute_integral()\n        refinement_dim = position[0]",
      "        lmaxChange = self.refinement.refine(position)\n        if lmaxChange is not None and lmaxChange[0] is not None:\n            return True\n        refinement_dim = position[0]", "C06.D5", file=SD),
    V("C06-b06-different-increments", "break", "                refinement_container_d.update_values(update_d)\n", "                refinement_container_d.update_values(update_d + 1)\n", "C06.D4", file=SD),
    V("C06-b07-rebalance-pair-half-dropped", "break",
      "                        if j > position_level and new_leaf_reached:\n                            refinement_object.levels[1] -= 1\n                            next_refinement_object.levels[0] -= 1\n",
      "                        if j > position_level and new_leaf_reached:\n                            refinement_object.levels[1] -= 1\n", "C06.D6", file=SD),
    V("C06-b08-new-level-from-left-only", "break", "        newLevel = max(self.levels) + 1\n", "        newLevel = self.levels[0] + 1\n", "C06.D1"),
    V("C06-b09-coarsening-always-decremented", "break",
      "        if self.coarsening_level == 0:\n            coarsening_value = 0\n        else:  # otherwise decrease coarsening level\n            coarsening_value = self.coarsening_level - 1\n",
      "        coarsening_value = self.coarsening_level - 1\n", "C06.D1"),
    V("C06-b10-assert-removed", "break", "        assert self.start < mid < self.end, \"{} < {} < {} does not hold.\".format(self.start, mid, self.end)\n", "", "C06.D1"),
    V("C06-b11-children-added-conditionally", "break", "        # add new RefinementObjects\n        self.add(new_objects)\n",
      "        # add new RefinementObjects\n        if len(new_objects) > 1:\n            self.add(new_objects[:2])\n", "C06.D2", file=RC),
    V("C06-b12-tolerance-without-margin", "break", "                tolerance=self.benefit_max * margin)", "                tolerance=self.benefit_max)", "C06.D5", file="spatiallyAdaptiveBase.py"),
    V("C06-b13-cursor-not-advanced", "break", "                self.searchPosition = i + 1\n", "                self.searchPosition = i\n", "C06.D5", file=RC),
    V("C06-b14-new-children-are-candidates", "break",
      "        if self.startNewObjects == 0:\n            end = self.size()\n        else:\n            end = self.startNewObjects\n        for i in range(self.searchPosition, end):",
      "        end = self.size()\n        for i in range(self.searchPosition, end):", "C06.D5", file=RC),
    V("C06-b15-coarsening-from-min-level", "break", "            refinement_object.coarsening_level = self.lmax[d] - max(refinement_object.levels)",
      "            refinement_object.coarsening_level = self.lmax[d] - min(refinement_object.levels)", "C06.D4", file=SD),
    V("C06-b16-initial-levels-shifted", "break", "list((levels[i], levels[i+1])), grid=self.grid,", "list((levels[i], levels[i])), grid=self.grid,", "C06.D0", file=SD),
    V("C06-b17-rebalance-wrong-neighbour", "break",
      "                    next_refinement_object = refineContainer.get_object(j+1+start)\n                    if j <= position_level:",
      "                    next_refinement_object = refineContainer.get_object(j+1)\n                    if j <= position_level:", "C06.D6", file=SD),
    V("C06-b18-outside-list-mutation", "break", "        lmaxChange = self.refinement.refine(position)\n        # the following",
      "        lmaxChange = self.refinement.refine(position)\n        self.refinement.get_refinement_container_for_dim(position[0]).popArray.clear()\n        # the following", "C06.D2", file=SD),
    V("C06-b19-benefit-max-stale", "break", "        self.benefit_max = self.refinement.get_max_benefit()\n",
      "        if getattr(self, 'benefit_max', None) is None:\n            self.benefit_max = self.refinement.get_max_benefit()\n", "C06.D5", file="spatiallyAdaptiveBase.py"),
    # neutral
    V("C06-n01-children-swapped-order", "neutral", "        " + CH1 + "\n        " + CH2 + "\n", "        " + CH2 + "\n        " + CH1 + "\n"),
    V("C06-n02-new-level-spelling", "neutral", "        newLevel = max(self.levels) + 1\n", "        newLevel = 1 + max(self.levels)\n"),
    V("C06-n03-selection-flipped", "neutral", "            if self.refinementObjects[i].benefit >= tolerance:", "            if not tolerance > self.refinementObjects[i].benefit:", file=RC),
    V("C06-n04-coarsening-ifexp-shape", "neutral",
      "        if self.coarsening_level == 0:\n            coarsening_value = 0\n        else:  # otherwise decrease coarsening level\n            coarsening_value = self.coarsening_level - 1\n",
      "        if self.coarsening_level != 0:\n            coarsening_value = self.coarsening_level - 1\n        else:\n            coarsening_value = 0\n"),
    V("C06-n05-margin-inline", "neutral", "                tolerance=self.benefit_max * margin)", "                tolerance=self.margin * self.benefit_max)", file="spatiallyAdaptiveBase.py"),
]
