def V(id, kind, old, new, rule=None, file="Extrapolation.py", **kw):
    d = {"id": id, "prop": "C11", "kind": kind, "file": file, "old": old, "new": new}
    if rule:
        d["rule"] = rule
    d.update(kw)
    return d


VARIANTS = [
    V("C11-b01-new-enum-member", "break", "    ROMBERG_DEFAULT_CONST_SUBTRACTION = 3  # Sliced Romberg with default Romberg extrapolation and constant subtraction\n",
      "    ROMBERG_DEFAULT_CONST_SUBTRACTION = 3  # Sliced Romberg with default Romberg extrapolation and constant subtraction\n    ROMBERG_LINEAR = 4\n", "C11.D1"),
    V("C11-b02-cache-key-points-only", "break", "        key = tuple([tuple(grid_1D), tuple(grid_levels_1D)])\n", "        key = tuple(grid_1D)\n", "C11.D3", file="Grid.py"),
    V("C11-b03-step-coefficients", "break", "            new_dict[grid_point] = (1 - coefficient) * left_dict[grid_point] + coefficient * top_left_dict[grid_point]",
      "            new_dict[grid_point] = (1 + coefficient) * left_dict[grid_point] + coefficient * top_left_dict[grid_point]", "C11.D2"),
    V("C11-b04-tree-setters-swapped", "break",
      "                        right_child = GridBinaryTree.__GridBinaryTree.Node(point)\n                        node.set_right_child(right_child)",
      "                        right_child = GridBinaryTree.__GridBinaryTree.Node(point)\n                        node.set_left_child(right_child)", "C11.D4"),
    V("C11-b05-slice-weights-not-partition", "break", "        right_weight = slice_width * (support_point_ratio - slice_support_ratio)",
      "        right_weight = slice_width * (support_point_ratio + slice_support_ratio)", "C11.D2"),
    V("C11-b06-branch-without-return", "break",
      "        elif version == ExtrapolationVersion.ROMBERG_SIMPSON:\n            return RombergSimpsonWeights(a, b)\n",
      "        elif version == ExtrapolationVersion.ROMBERG_SIMPSON:\n            RombergSimpsonWeights(a, b)\n", "C11.D1"),
    V("C11-b07-mirror-point-wrong", "break", "                        point = node.point - (node.right_child.point - node.point)",
      "                        point = node.point - (node.right_child.point - node.point) / 2", "C11.D4"),
    V("C11-b08-missing-entry-other-coefficient", "break", "                new_dict[grid_point] = 0 + coefficient * weight",
      "                new_dict[grid_point] = 0 + (1 - coefficient) * weight", "C11.D2"),
    V("C11-b09-slice-version-mutable", "break", "    def initialize_grid(self):\n        # Reset weight cache\n        if len(self.weight_cache) > 50:",
      "    def set_slice_version(self, v):\n        self.slice_version = v\n\n    def initialize_grid(self):\n        # Reset weight cache\n        if len(self.weight_cache) > 50:", "C11.D3", file="Grid.py"),
    V("C11-b10-trapezoid-weights", "break", "        return self.width / 2, self.width / 2\n", "        return self.width / 2, self.width / 4\n", "C11.D2"),
    V("C11-b11-container-member-dropped-from-dispatch", "break",
      "        elif self.slice_container_version == SliceContainerVersion.LAGRANGE_ROMBERG or \\\n            self.slice_container_version == SliceContainerVersion.LAGRANGE_FULL_GRID_ROMBERG:",
      "        elif self.slice_container_version == SliceContainerVersion.LAGRANGE_ROMBERG:", "C11.D1"),
    V("C11-b12-cache-stores-under-other-key", "break", "            self.weight_cache[key] = weights\n", "            self.weight_cache[tuple(grid_1D)] = weights\n", "C11.D3", file="Grid.py"),
    V("C11-b13-coefficient-formula", "break", "        coefficient = (-1) / (4 ** k - 1)", "        coefficient = (-1) / (2 ** k - 1)", "C11.D2"),
    # neutral
    V("C11-n01-weights-refactored", "neutral",
      "        left_weight = slice_width * (1 - support_point_ratio + slice_support_ratio)",
      "        shift = support_point_ratio - slice_support_ratio\n        left_weight = slice_width - slice_width * shift"),
    V("C11-n02-step-spelling", "neutral", "            new_dict[grid_point] = (1 - coefficient) * left_dict[grid_point] + coefficient * top_left_dict[grid_point]",
      "            new_dict[grid_point] = left_dict[grid_point] + coefficient * (top_left_dict[grid_point] - left_dict[grid_point])"),
    V("C11-n03-mirror-spelling", "neutral", "                        point = node.point + (node.point - node.left_child.point)",
      "                        point = 2 * node.point - node.left_child.point"),
    V("C11-n04-dispatch-order", "neutral",
      "        if self.extrapolation_version == ExtrapolationVersion.ROMBERG_DEFAULT:\n            return RombergDefaultCoefficients(a, b)\n\n        elif self.extrapolation_version == ExtrapolationVersion.ROMBERG_LINEAR:\n            return RombergLinearCoefficients(a, b)\n",
      "        if self.extrapolation_version == ExtrapolationVersion.ROMBERG_LINEAR:\n            return RombergLinearCoefficients(a, b)\n\n        elif self.extrapolation_version == ExtrapolationVersion.ROMBERG_DEFAULT:\n            return RombergDefaultCoefficients(a, b)\n"),
    # generic state rules (sa/statecheck.py)
    V("C11-b40-balanced-weights-memo-never-dropped", "break", None, None, "C11.S2", edits=[
        {"file": "Extrapolation.py", "old": "        self.max_level = None\n\n        self.print_debug = print_debug\n",
         "new": "        self.max_level = None\n        self.weights_memo = None\n\n        self.print_debug = print_debug\n"},
        {"file": "Extrapolation.py", "old": "        # Initialize list of weight dictionaries\n        weight_dict_list = []\n",
         "new": "        if self.weights_memo is not None:\n            return self.weights_memo\n        # Initialize list of weight dictionaries\n        weight_dict_list = []\n"},
        {"file": "Extrapolation.py", "old": "        assert len(weights) == len(self.grid)\n\n        return weights\n",
         "new": "        assert len(weights) == len(self.grid)\n        self.weights_memo = weights\n\n        return weights\n"}]),
    V("C11-n40-balanced-weights-memo-dropped-by-set-grid", "neutral", None, None, edits=[
        {"file": "Extrapolation.py", "old": "        self.max_level = None\n\n        self.print_debug = print_debug\n",
         "new": "        self.max_level = None\n        self.weights_memo = None\n\n        self.print_debug = print_debug\n"},
        {"file": "Extrapolation.py", "old": "        # Initialize list of weight dictionaries\n        weight_dict_list = []\n",
         "new": "        if self.weights_memo is not None:\n            return self.weights_memo\n        # Initialize list of weight dictionaries\n        weight_dict_list = []\n"},
        {"file": "Extrapolation.py", "old": "        assert len(weights) == len(self.grid)\n\n        return weights\n",
         "new": "        assert len(weights) == len(self.grid)\n        self.weights_memo = weights\n\n        return weights\n"},
        {"file": "Extrapolation.py", "old": "        self.grid = grid\n        self.grid_levels = grid_levels\n        self.max_level = max(grid_levels)\n",
         "new": "        self.grid = grid\n        self.grid_levels = grid_levels\n        self.max_level = max(grid_levels)\n        self.weights_memo = None\n"}]),
]
