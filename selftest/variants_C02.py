def V(id, kind, old, new, rule=None, file="StandardCombi.py", **kw):
    d = {"id": id, "prop": "C02", "kind": kind, "file": file, "old": old, "new": new}
    if rule:
        d["rule"] = rule
    d.update(kw)
    return d


VARIANTS = [
    V("C02-b01-grid-interp-no-coefficient", "break",
      "            interpolation += self.interpolate_grid_component(grid_coordinates, component_grid) * component_grid.coefficient\n",
      "            interpolation += self.interpolate_grid_component(grid_coordinates, component_grid)\n", "C02.D1"),
    V("C02-b02-first-coefficient-for-all", "break",
      "                interpolation += self.interpolate_points(interpolation_points, component_grid) * component_grid.coefficient\n",
      "                interpolation += self.interpolate_points(interpolation_points, component_grid) * self.scheme[0].coefficient\n", "C02.D1"),
    V("C02-b03-scheme-slice", "break",
      "        for component_grid in self.scheme:\n            interpolation += self.interpolate_grid_component",
      "        for component_grid in self.scheme[:-1]:\n            interpolation += self.interpolate_grid_component", "C02.D1"),
    V("C02-b04-weights-meshgrid-order", "break",
      "        return np.asarray(np.prod(get_cross_product_list(self.weights), axis=1), dtype=np.float64)",
      "        return np.asarray(np.prod(np.array(np.meshgrid(*self.weights)).T.reshape(-1, len(self.weights)), axis=1), dtype=np.float64)",
      "C02.D3", file="Grid.py"),
    V("C02-b05-result-before-loop", "break", None, None, "C02.D2",
      edits=[{"file": "StandardCombi.py", "old": "        # get result of combination\n        combi_result = self.operation.get_result()\n", "new": ""},
             {"file": "StandardCombi.py", "old": "        # iterate over all component_grids and perform operation\n",
              "new": "        combi_result = self.operation.get_result()\n        # iterate over all component_grids and perform operation\n"}]),
    V("C02-b06-no-initialize", "break", "        self.set_combi_parameters(lmin, lmax)\n        self.operation.initialize()\n",
      "        self.set_combi_parameters(lmin, lmax)\n", "C02.D2"),
    V("C02-b07-weights-unweighted", "break", "            weights = [w * component_grid.coefficient for w in weights]\n", "", "C02.D1"),
    V("C02-b08-points-of-other-levelvec", "break",
      "            points, weights = self.get_points_and_weights_component_grid(component_grid.levelvector)",
      "            points, weights = self.get_points_and_weights_component_grid(self.scheme[0].levelvector)", "C02.D1"),
    V("C02-b09-skip-negative-coefficients", "break",
      "            for component_grid in self.scheme:\n                interpolation += self.interpolate_points",
      "            for component_grid in self.scheme:\n                if component_grid.coefficient < 0:\n                    continue\n                interpolation += self.interpolate_points", "C02.D1"),
    V("C02-b10-global-weights-unsliced", "break",
      "grid_levels_1D=grid_levels[d],)[1:-1]", "grid_levels_1D=grid_levels[d],)[:-2]", "C02.D3", file="Grid.py"),
    V("C02-b11-evaluate-levelvec-no-coefficient", "break",
      "        self.integral += partial_integral * component_grid.coefficient\n", "        self.integral += partial_integral\n", "C02.D1", file="GridOperation.py"),
    V("C02-b12-accumulator-not-reset", "break",
      "        interpolation = np.zeros((num_points, self.operation.point_output_length()))\n",
      "        interpolation = getattr(self, '_last_interpolation', np.zeros((num_points, self.operation.point_output_length())))\n", "C02.D1"),
    V("C02-b13-weights-from-other-grid-array", "break",
      "        self.weights = [self.grids[d].weights for d in range(self.dim)]\n",
      "        self.weights = [self.grids[d].weights for d in reversed(range(self.dim))]\n", "C02.D3", file="Grid.py"),
    V("C02-b14-scheme-from-wrong-levels", "break",
      "        self.scheme = self.combischeme.getCombiScheme(lmin, lmax, self.print_output)\n",
      "        self.scheme = self.combischeme.getCombiScheme(lmin, lmax - 1, self.print_output)\n", "C02.D2"),
    V("C02-b15-dimadaptive-uses-other-coefficient", "break",
      "                combiintegral += integral * component_grid.coefficient\n", "                combiintegral += integral * self.scheme[i - 1].coefficient\n",
      "C02.D1", file="DimAdaptiveCombi.py"),
    # neutral
    V("C02-n01-temp-result", "neutral",
      "            interpolation += self.interpolate_grid_component(grid_coordinates, component_grid) * component_grid.coefficient\n",
      "            partial = self.interpolate_grid_component(grid_coordinates, component_grid)\n            interpolation += component_grid.coefficient * partial\n"),
    V("C02-n02-skip-zero-coefficient", "neutral",
      "        for component_grid in self.scheme:\n            interpolation += self.interpolate_grid_component",
      "        for component_grid in self.scheme:\n            if component_grid.coefficient == 0:\n                continue\n            interpolation += self.interpolate_grid_component"),
    V("C02-n03-enumerate-loop", "neutral",
      "        for component_grid in self.scheme:  # iterate over component grids\n            self.operation.evaluate_levelvec(component_grid)\n",
      "        for k, component_grid in enumerate(self.scheme):\n            self.log_util.log_debug(str(k))\n            self.operation.evaluate_levelvec(component_grid)\n"),
    V("C02-n04-rename-element", "neutral",
      "        for component_grid in self.scheme:\n            points, weights = self.get_points_and_weights_component_grid(component_grid.levelvector)\n            total_points.extend(points)\n            # adjust weights for combination -> multiply with combi coefficient\n            weights = [w * component_grid.coefficient for w in weights]\n",
      "        for cg in self.scheme:\n            points, weights = self.get_points_and_weights_component_grid(cg.levelvector)\n            total_points.extend(points)\n            weights = [cg.coefficient * w for w in weights]\n"),
]
for v in VARIANTS:
    if v.get("old") is None:
        v.pop("old"); v.pop("new"); v.pop("file")
