def V(id, kind, old, new, rule=None, file="spatiallyAdaptiveBase.py", **kw):
    d = {"id": id, "prop": "C14", "kind": kind, "file": file, "old": old, "new": new}
    if rule:
        d["rule"] = rule
    d.update(kw)
    return d


VARIANTS = [
    V("C14-b01-dump-refinement-only", "break", "                dill.dump(self, f)\n", "                dill.dump(self.refinement, f)\n", "C14.D2", file="StandardCombi.py"),
    V("C14-b02-load-not-returned", "break", "                return dill.load(f)\n", "                dill.load(f)\n", "C14.D2", file="StandardCombi.py"),
    V("C14-b03-dimwise-loses-reset", "break",
      "    def init_evaluation_operation(self, areas):\n        self.operation.initialize_evaluation_dimension_wise(areas[0])\n",
      "    def init_evaluation_operation(self, areas):\n        pass\n", "C14.D1", file="spatiallyAdaptiveSingleDimension2.py"),
    V("C14-b04-continuation-resets-history", "break",
      "        start_time = time.perf_counter()\n        while True:\n            if self.single_step:",
      "        start_time = time.perf_counter()\n        self.refinements = 0\n        while True:\n            if self.single_step:", "C14.D3"),
    V("C14-b05-meta-reinit-skips-first-container", "break",
      "        self.curContainer = 0\n        for c in self.refinementContainers:\n            c.reinit_new_objects()\n",
      "        self.curContainer = 0\n        for c in self.refinementContainers[1:]:\n            c.reinit_new_objects()\n", "C14.D4", file="RefinementContainer.py"),
    V("C14-b06-meta-remove-drops-sort", "break",
      "        for c in self.refinementContainers:\n            c.apply_remove(sort)\n", "        for c in self.refinementContainers:\n            c.apply_remove()\n",
      "C14.D4", file="RefinementContainer.py"),
    V("C14-b07-state-in-unset-attribute", "break",
      "            num_evaluations = self.get_total_num_points()\n            if self.solutions_storage is not None:",
      "            num_evaluations = self.get_total_num_points()\n            self.evaluation_history.append(num_evaluations)\n            if self.solutions_storage is not None:", "C14.D3"),
    V("C14-b08-refine-conditionally-clears", "break",
      "        self.prepare_refinement()\n        self.refinement.clear_new_objects()\n",
      "        self.prepare_refinement()\n        if self.refinements > 0:\n            self.refinement.clear_new_objects()\n", "C14.D1"),
    V("C14-b09-file-mode-text", "break", "            with open(filename, 'wb') as f:", "            with open(filename + '.pkl', 'wb') as f:", "C14.D2", file="StandardCombi.py"),
    V("C14-b10-clear-marker-off-by-one", "break",
      "        self.startNewObjects = len(self.refinementObjects)\n\n        # returns only newly added RefinementObjects",
      "        self.startNewObjects = len(self.refinementObjects) - 1\n\n        # returns only newly added RefinementObjects", "C14.D4", file="RefinementContainer.py"),
    V("C14-b11-initial-call-own-loop", "break",
      "        return self.continue_adaptive_refinement(tol=tol, max_time=max_time, max_evaluations=max_evaluations, min_evaluations=min_evaluations)\n",
      "        error, surplus_error = self.evaluate_operation()\n        self.refine()\n        return self.refinement, self.scheme, self.lmax, self.operation.get_result(), self.refinement.evaluationstotal, [error], [], [surplus_error], [], []\n", "C14.D3"),
    # neutral
    V("C14-n01-pickle-protocol", "neutral", "                dill.dump(self, f)\n", "                dill.dump(self, f, protocol=4)\n", file="StandardCombi.py"),
    V("C14-n02-rename-loop-locals", "neutral", "num_evaluations", "n_points_now", all=True),
    V("C14-n03-repair-clear-marker-on-exit", "neutral",
      "            if error <= tol and num_evaluations >= min_evaluations:\n                break\n            if max_evaluations is not None and num_evaluations > max_evaluations:\n                break\n            if max_time is not None and time.time() - start_time > max_time:\n                break\n",
      "            stop = (error <= tol and num_evaluations >= min_evaluations) or (max_evaluations is not None and num_evaluations > max_evaluations) or (max_time is not None and time.time() - start_time > max_time)\n            if stop:\n                self.log_util.time_func(\"refine\", self.refine)\n                break\n"),
    V("C14-n04-meta-loop-enumerate", "neutral",
      "        for container in self.refinementContainers:\n            container.clear_new_objects()\n",
      "        for cont_d in self.refinementContainers:\n            cont_d.clear_new_objects()\n", file="RefinementContainer.py"),
    # D9: one accumulator object per interval
    V("C14-b60-all-intervals-share-the-volume-array", "break", "                    refine_obj.add_volume(modified_volume * component_grid.coefficient)\n",
      "                    refine_obj.add_volume(volume)\n", "C14.D9", file="spatiallyAdaptiveSingleDimension2.py"),
    V("C14-n60-share-through-a-local", "neutral", "                    refine_obj.add_volume(modified_volume * component_grid.coefficient)\n",
      "                    share = modified_volume * component_grid.coefficient\n                    refine_obj.add_volume(share)\n",
      file="spatiallyAdaptiveSingleDimension2.py"),
]
