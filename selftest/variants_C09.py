def V(id, kind, old, new, rule=None, file="Grid.py", **kw):
    d = {"id": id, "prop": "C09", "kind": kind, "file": file, "old": old, "new": new}
    if rule:
        d["rule"] = rule
    d.update(kw)
    return d


VARIANTS = [
    V("C09-b01-sign-slip-left-half", "break", "                            weights[i] += 0.5 * (grid_1D[i] - grid_1D[i - 1])",
      "                            weights[i] += 0.5 * (grid_1D[i - 1] - grid_1D[i])", "C09.D1"),
    V("C09-b02-level-dependent-factor", "break",
      "        return GlobalTrapezoidalGrid.compute_weights(grid_1D, a, b, self.modified_basis)",
      "        w = GlobalTrapezoidalGrid.compute_weights(grid_1D, a, b, self.modified_basis)\n        if grid_levels_1D is not None and len(grid_levels_1D) > 64:\n            w = w * (1.0 + 1e-3 * (np.asarray(grid_levels_1D) > 12))\n        return w", "C09.D2", nth=0),
    V("C09-b03-right-half-subtracted", "break", "                            weights[i] += 0.5*(grid_1D[i + 1] - grid_1D[i])",
      "                            weights[i] -= 0.5*(grid_1D[i + 1] - grid_1D[i])", "C09.D1"),
    V("C09-b04-cached-state", "break",
      "        return GlobalTrapezoidalGrid.compute_weights(grid_1D, a, b, self.modified_basis)",
      "        key = len(grid_1D)\n        if not hasattr(self, '_w_cache'):\n            self._w_cache = {}\n        if key not in self._w_cache:\n            self._w_cache[key] = GlobalTrapezoidalGrid.compute_weights(grid_1D, a, b, self.modified_basis)\n        return self._w_cache[key]", "C09.S2", nth=0),
    V("C09-b05-boundary-correction-term", "break", "            if modified_basis:\n                weights[0] = 0.0\n                weights[-1] = 0.0\n",
      "            if modified_basis:\n                weights[0] = 0.0\n                weights[-1] = 0.0\n            else:\n                weights[0] -= 0.25 * (grid_1D[1] - grid_1D[0]) * (len(grid_1D) > 33)\n", "C09.D1"),
    V("C09-b06-sortedness-assert-after-weights", "break",
      "            # check if grid_points are sorted\n            assert all(grid_points[d][i] <= grid_points[d][i + 1] for i in range(len(grid_points[d]) - 1))\n", "", None),
    V("C09-b07-flag-flipped-later", "break", "    def compute_1D_quad_weights(self, grid_1D: Sequence[float], a: float, b: float, d: int, grid_levels_1D: Sequence[int]=None) -> Sequence[float]:\n        # print(\"Weights of GlobalTrapezoidalGrid: {}\".format(grid_1D))",
      "    def use_modified_basis(self, flag):\n        self.modified_basis = flag\n\n    def compute_1D_quad_weights(self, grid_1D: Sequence[float], a: float, b: float, d: int, grid_levels_1D: Sequence[int]=None) -> Sequence[float]:\n        # print(\"Weights of GlobalTrapezoidalGrid: {}\".format(grid_1D))", "C09.D2"),
    # neutral
    V("C09-n01-half-width-temp", "neutral", "                            weights[i] += 0.5 * (grid_1D[i] - grid_1D[i - 1])",
      "                            left_h = grid_1D[i] - grid_1D[i - 1]\n                            weights[i] += left_h / 2"),
    V("C09-n02-factor-order", "neutral", "                            weights[i] += 0.5*(grid_1D[i + 1] - grid_1D[i])", "                            weights[i] += (grid_1D[i + 1] - grid_1D[i]) * 0.5"),
    V("C09-n03-keyword-call", "neutral", "        return GlobalTrapezoidalGrid.compute_weights(grid_1D, a, b, self.modified_basis)",
      "        mb = self.modified_basis\n        return GlobalTrapezoidalGrid.compute_weights(grid_1D, a, b, mb)", nth=0),
    # D8: the Gauss rule for the moments is exact for every degree of the loop
    V("C09-b20-moment-rule-one-point-short", "break", "            coordsD, weightsD = legendre.leggauss(int((d+2)/2))\n",
      "            coordsD, weightsD = legendre.leggauss(int((d+1)/2))\n", "C09.D8"),
    V("C09-n20-moment-rule-floor-division", "neutral", "            coordsD, weightsD = legendre.leggauss(int((d+2)/2))\n",
      "            coordsD, weightsD = legendre.leggauss(d // 2 + 1)\n"),
    V("C09-n21-moment-rule-generous", "neutral", "            coordsD, weightsD = legendre.leggauss(int((d+2)/2))\n",
      "            coordsD, weightsD = legendre.leggauss(d + 1)\n"),
    # D9 / D10 (round 3)
    V("C09-b50-degree-search-starts-above-fallback", "break", "        d = d_old = 1\n        weights_1D_old = np.zeros(len(grid_1D))\n",
      "        d_old = 1\n        d = 2\n        weights_1D_old = np.zeros(len(grid_1D))\n", "C09.D9", file="Grid.py"),
    V("C09-b51-sorted-search-without-equality", "break",
      "                if x_basis in grid_1D:\n                    if self.modified_basis:\n                        spline = HierarchicalNotAKnotBSplineModified(self.p, i, l, knots, a, b)\n                    else:\n                        spline = HierarchicalNotAKnotBSpline(self.p, i, l, knots)\n                    index = grid_1D.index(x_basis)\n",
      "                index = int(np.searchsorted(grid_1D, x_basis))\n                if index < len(grid_1D):\n                    if self.modified_basis:\n                        spline = HierarchicalNotAKnotBSplineModified(self.p, i, l, knots, a, b)\n                    else:\n                        spline = HierarchicalNotAKnotBSpline(self.p, i, l, knots)\n",
      "C09.D10", file="Grid.py"),
    V("C09-n51-sorted-search-with-equality", "neutral",
      "                if x_basis in grid_1D:\n                    if self.modified_basis:\n                        spline = HierarchicalNotAKnotBSplineModified(self.p, i, l, knots, a, b)\n                    else:\n                        spline = HierarchicalNotAKnotBSpline(self.p, i, l, knots)\n                    index = grid_1D.index(x_basis)\n",
      "                index = np.searchsorted(grid_1D, x_basis)\n                if index < len(grid_1D) and grid_1D[index] == x_basis:\n                    if self.modified_basis:\n                        spline = HierarchicalNotAKnotBSplineModified(self.p, i, l, knots, a, b)\n                    else:\n                        spline = HierarchicalNotAKnotBSpline(self.p, i, l, knots)\n",
      file="Grid.py"),
]
