def V(id, kind, old, new, rule=None, file="BasisFunctions.py", **kw):
    d = {"id": id, "prop": "C10", "kind": kind, "file": file, "old": old, "new": new}
    if rule:
        d["rule"] = rule
    d.update(kw)
    return d

HZ = "Hierarchization.py"
VARIANTS = [
    V("C10-b01-extra-filter-in-call-only", "break",
      "        result = 1\n        for i, knot in enumerate(self.knots):\n            if self.index != i:\n                result *= (x - self.knots[i])",
      "        result = 1\n        for i, knot in enumerate(self.knots):\n            if self.index != i and i != 0:\n                result *= (x - self.knots[i])", "C10.D1"),
    V("C10-b02-matrix-transposed", "break", "                matrix[i, j] = self.grid.get_basis(d, j)(self.grid.get_coordinates_dim(d)[i])",
      "                matrix[j, i] = self.grid.get_basis(d, j)(self.grid.get_coordinates_dim(d)[i])", "C10.D2", file=HZ),
    V("C10-b03-write-back-shifted", "break", "                    grid_values[n,pole_coordinates[i]] = hierarchized_values[i]",
      "                    grid_values[n,pole_coordinates[i - 1]] = hierarchized_values[i]", "C10.D2", file=HZ),
    V("C10-b04-threshold-diverges", "break", "                if numPoints[d] >= 15:\n                    hierarchized_values = solve_triangular",
      "                if numPoints[d] >= 12:\n                    hierarchized_values = solve_triangular", "C10.D3", file=HZ),
    V("C10-b05-global-key-differs", "break", "        self.surplus_values[tuple(levelvec)] = self.integrator.get_surplusses()\n",
      "        self.surplus_values[tuple(sorted(levelvec))] = self.integrator.get_surplusses()\n", "C10.D4", file="Grid.py"),
    V("C10-b06-normalisation-partial-range", "break",
      "        self.factor = 1\n        for i, knot in enumerate(self.knots):\n            assert not isinf(self.knots[i])\n            if self.index != i:",
      "        self.factor = 1\n        for i, knot in enumerate(self.knots[:-1]):\n            assert not isinf(self.knots[i])\n            if self.index != i:", "C10.D1"),
    V("C10-b07-restricted-returns-base-outside", "break",
      "        if self.point_in_support(x):\n            return super().__call__(x)\n        else:\n            return 0.0\n\n    def get_first_derivative",
      "        return super().__call__(x)\n\n    def get_first_derivative", "C10.D1"),
    V("C10-b08-qr-solve-without-transpose", "break", "solve_triangular(R, np.inner(Q.T, pole_values[n, :]), check_finite=False)",
      "solve_triangular(R, np.inner(Q, pole_values[n, :]), check_finite=False)", "C10.D2", file=HZ),
    V("C10-b09-local-key-without-levelvec", "break",
      "        self.surplus_values[tuple((tuple(start), tuple(end), tuple(levelvec)))] = self.integrator.get_surplusses()",
      "        self.surplus_values[tuple((tuple(start), tuple(end)))] = self.integrator.get_surplusses()", "C10.D4", file="Grid.py"),
    V("C10-b10-factor-denominator-swapped-index", "break",
      "                self.factor *= 1 / (self.knots[self.index] - self.knots[i])\n        #assert(index <= len(knots) - p - 2)",
      "                self.factor *= 1 / (self.knots[i] - self.knots[self.index - 1])\n        #assert(index <= len(knots) - p - 2)", "C10.D1"),
    V("C10-b11-pole-read-other-component", "break", "                pole_values[:, i] = grid_values[:, pole_coordinates[i]]",
      "                pole_values[:, i] = grid_values[:, pole_coordinates_base[i]]", "C10.D2", file=HZ),
    V("C10-b12-surpluses-stored-before-integration", "break",
      "        integral = self.integrator(f, self.levelToNumPoints(levelvec), start, end)\n        self.surplus_values[tuple(levelvec)] = self.integrator.get_surplusses()\n",
      "        self.surplus_values[tuple(levelvec)] = self.integrator.get_surplusses()\n        integral = self.integrator(f, self.levelToNumPoints(levelvec), start, end)\n", "C10.D4", file="Grid.py"),
    # neutral
    V("C10-n01-filter-flipped", "neutral",
      "            if self.index != i:\n                result *= (x - self.knots[i])", "            if not i == self.index:\n                result *= (x - self.knots[i])"),
    V("C10-n02-threshold-both-changed", "neutral", "numPoints[d] >= 15", "numPoints[d] >= 20", file=HZ, all=True),
    V("C10-n03-rename-matrix-indices", "neutral",
      "        for i in range(numPoints[d]):\n            for j in range(numPoints[d]):\n                matrix[i, j] = self.grid.get_basis(d, j)(self.grid.get_coordinates_dim(d)[i])",
      "        for row in range(numPoints[d]):\n            for col in range(numPoints[d]):\n                matrix[row, col] = self.grid.get_basis(d, col)(self.grid.get_coordinates_dim(d)[row])", file=HZ),
    # D9: the Gauss rule stored for the basis integrals is exact for degree p
    V("C10-b30-basis-rule-one-point-short", "break", "        self.coords_gauss, self.weights_gauss = legendre.leggauss(int(self.p / 2) + 1)\n",
      "        self.coords_gauss, self.weights_gauss = legendre.leggauss(int(self.p / 2))\n", "C10.D9", file="Grid.py"),
    V("C10-b31-basis-rule-rounded-wrong-way", "break", "        self.coords_gauss, self.weights_gauss = legendre.leggauss(int(self.p / 2) + 1)\n",
      "        self.coords_gauss, self.weights_gauss = legendre.leggauss(int((self.p + 1) / 2))\n", "C10.D9", file="Grid.py"),
    V("C10-n30-basis-rule-floor-division", "neutral", "        self.coords_gauss, self.weights_gauss = legendre.leggauss(int(self.p / 2) + 1)\n",
      "        self.coords_gauss, self.weights_gauss = legendre.leggauss(self.p // 2 + 1)\n", file="Grid.py"),
    # D10: get_integral integrates what __call__ evaluates
    V("C10-b32-modified-spline-integrates-unmodified-component", "break", "                f_evals = np.array([self(coord) for coord in coords])\n",
      "                f_evals = np.array([self.spline(coord) for coord in coords])\n", "C10.D10", nth=2),
    V("C10-b33-restricted-lagrange-integrates-parent-polynomial", "break", "        f_evals = np.array([self(coord) for coord in coords])\n",
      "        f_evals = np.array([LagrangeBasis.__call__(self, coord) for coord in coords])\n", "C10.D10", nth=2),
    V("C10-n32-plain-spline-integrates-its-delegate", "neutral", "                f_evals = np.array([self(coord) for coord in coords])\n",
      "                f_evals = np.array([self.spline(coord) for coord in coords])\n", nth=1),
    # generic state rules (sa/statecheck.py)
    V("C10-b50-collocation-matrix-memo-across-grids", "break", None, None, "C10.S2", edits=[
        {"file": "Hierarchization.py", "old": "        self.grid = grid\n\n    def __call__", "new": "        self.grid = grid\n        self.matrix_memo = {}\n\n    def __call__"},
        {"file": "Hierarchization.py", "old": "        matrix = np.empty((numPoints[d], numPoints[d]))\n        for i in range(numPoints[d]):\n            for j in range(numPoints[d]):\n                matrix[i, j] = self.grid.get_basis(d, j)(self.grid.get_coordinates_dim(d)[i])\n",
         "new": "        if (d, numPoints[d]) not in self.matrix_memo:\n            matrix = np.empty((numPoints[d], numPoints[d]))\n            for i in range(numPoints[d]):\n                for j in range(numPoints[d]):\n                    matrix[i, j] = self.grid.get_basis(d, j)(self.grid.get_coordinates_dim(d)[i])\n            self.matrix_memo[(d, numPoints[d])] = matrix\n        matrix = self.matrix_memo[(d, numPoints[d])]\n"}]),
    V("C10-n50-collocation-matrix-memo-per-call", "neutral", None, None, edits=[
        {"file": "Hierarchization.py", "old": "        self.grid = grid\n\n    def __call__", "new": "        self.grid = grid\n        self.matrix_memo = {}\n\n    def __call__"},
        {"file": "Hierarchization.py", "old": "        matrix = np.empty((numPoints[d], numPoints[d]))\n        for i in range(numPoints[d]):\n            for j in range(numPoints[d]):\n                matrix[i, j] = self.grid.get_basis(d, j)(self.grid.get_coordinates_dim(d)[i])\n",
         "new": "        if (d, numPoints[d]) not in self.matrix_memo:\n            matrix = np.empty((numPoints[d], numPoints[d]))\n            for i in range(numPoints[d]):\n                for j in range(numPoints[d]):\n                    matrix[i, j] = self.grid.get_basis(d, j)(self.grid.get_coordinates_dim(d)[i])\n            self.matrix_memo[(d, numPoints[d])] = matrix\n        matrix = self.matrix_memo[(d, numPoints[d])]\n"},
        {"file": "Hierarchization.py", "old": "        self.grid = grid\n        self.dim = len(numPoints)\n", "new": "        self.grid = grid\n        self.matrix_memo = {}\n        self.dim = len(numPoints)\n"}]),
    # round-3 rules
    V("C10-n60-value-buffer-zeros", "neutral", "        grid_values = np.empty((output_dim, np.prod(numPoints)))\n",
      "        grid_values = np.zeros((output_dim, int(np.prod(numPoints))), dtype=np.float64)\n", file="Integrator.py"),
    V("C10-b60-value-buffer-integer", "break", "        grid_values = np.empty((output_dim, np.prod(numPoints)))\n",
      "        grid_values = np.empty((output_dim, np.prod(numPoints)), dtype=int)\n", "C10.D11", file="Integrator.py"),
]
