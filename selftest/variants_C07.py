def V(id, kind, old, new, rule=None, file="RefinementObject.py", **kw):
    d = {"id": id, "prop": "C07", "kind": kind, "file": file, "old": old, "new": new}
    if rule:
        d["rule"] = rule
    d.update(kw)
    return d

ES = "spatiallyAdaptiveExtendSplit.py"
VARIANTS = [
    V("C07-b01-different-tests", "break", "            end_sub_area[d] = midpoint if i == 0 else end_sub_area[d]\n",
      "            end_sub_area[d] = midpoint if i != 1 or d == 0 else end_sub_area[d]\n", "C07.D1"),
    V("C07-b02-extend-coarsening-minus-two", "break", "                coarseningValue = coarsening_level - 1\n", "                coarseningValue = coarsening_level - 2\n", "C07.D2"),
    V("C07-b03-update-minus-one", "break", "                update_other_coarsenings = 1\n", "                update_other_coarsenings = -1\n", "C07.D3"),
    V("C07-b04-update-keeps-records", "break", "        self.coarseningValue += update_info\n        self.levelvec_dict = {}\n", "        self.coarseningValue += update_info\n", "C07.D5"),
    V("C07-b05-writes-area-start", "break", "        lmax_change, new_objects = self.refinement.refine(position)\n",
      "        lmax_change, new_objects = self.refinement.refine(position)\n        area.start[0] = min(area.start[0], self.a[0])\n", "C07.D4", file=ES),
    V("C07-b06-arbitrary-split-other-midpoint", "break", "                end_sub_area[d] = midpoint[d] if rest < 2 ** d else end[d]\n",
      "                end_sub_area[d] = 0.5 * (start[d] + end[d]) if rest < 2 ** d else end[d]\n", "C07.D1"),
    V("C07-b07-arbitrary-split-test-differs", "break", "                end_sub_area[d] = midpoint[d] if rest < 2 ** d else end[d]\n",
      "                end_sub_area[d] = midpoint[d] if rest <= 2 ** d else end[d]\n", "C07.D1"),
    V("C07-b08-extend-shrinks-box", "break", "newRefinementObject = RefinementObjectExtendSplit(start=self.start, end=self.end, grid=self.grid,",
      "newRefinementObject = RefinementObjectExtendSplit(start=self.start, end=0.5 * (np.array(self.start) + np.array(self.end)), grid=self.grid,", "C07.D2"),
    V("C07-b09-flexibel-stores-raw-coarsening", "break", "        area.coarseningValue = max(coarsening, 0)\n", "        area.coarseningValue = coarsening\n", "C07.D3", file=ES),
    V("C07-b10-collision-pair-mismatch", "break", "                    area.add_level(tuple(temp), tuple(levelvector))\n",
      "                    area.add_level(tuple(levelvector), tuple(temp))\n", "C07.D5", file=ES),
    V("C07-b11-points-not-removed", "break", "                points = set(points) - set(contained_points)\n                if len(points) == 0:\n                    break\n", "", "C07.D6", file=ES),
    V("C07-b12-split-child-no-counter", "break",
      "                                                                needExtendScheme=self.needExtendScheme + 1,\n                                                                automatic_extend_split=self.automatic_extend_split,\n                                                                splitSingleDim=self.splitSingleDim)\n            new_refinement_object.twins = list(self.twins)",
      "                                                                needExtendScheme=self.needExtendScheme,\n                                                                automatic_extend_split=self.automatic_extend_split,\n                                                                splitSingleDim=self.splitSingleDim)\n            new_refinement_object.twins = list(self.twins)", "C07.D1"),
    V("C07-b13-child-coarsening-decremented", "break",
      "                                                                coarseningValue=self.coarseningValue,\n                                                                needExtendScheme=self.needExtendScheme + 1,\n                                                                automatic_extend_split=self.automatic_extend_split,\n                                                                splitSingleDim=self.splitSingleDim)\n            self.children.append(new_refinement_object)\n            sub_area_array.append(new_refinement_object)\n        return sub_area_array\n    \n",
      "                                                                coarseningValue=self.coarseningValue - 1,\n                                                                needExtendScheme=self.needExtendScheme + 1,\n                                                                automatic_extend_split=self.automatic_extend_split,\n                                                                splitSingleDim=self.splitSingleDim)\n            self.children.append(new_refinement_object)\n            sub_area_array.append(new_refinement_object)\n        return sub_area_array\n    \n", "C07.D"),
    V("C07-b14-collision-test-inverted", "break", "            return self.levelvec_dict[levelvec_coarsened] != levelvec", "            return self.levelvec_dict[levelvec_coarsened] == levelvec", "C07.D5"),
    V("C07-b15-single-split-three-children", "break", "        for i in range(2):\n            start_sub_area = list(self.start)", "        for i in range(3):\n            start_sub_area = list(self.start)", "C07.D1"),
    V("C07-b16-midpoint-of-other-dimension", "break", "        midpoint = self.grid.get_mid_point(self.start[d], self.end[d], d)\n        sub_area_array = []\n        for i in range(2):",
      "        midpoint = self.grid.get_mid_point(self.start[0], self.end[0], d)\n        sub_area_array = []\n        for i in range(2):", "C07.D1"),
    # neutral
    V("C07-n01-rename-midpoint", "neutral", "        midpoint = self.grid.get_mid_point(self.start[d], self.end[d], d)\n        sub_area_array = []\n        for i in range(2):\n            start_sub_area = list(self.start)\n            end_sub_area = list(self.end)\n            start_sub_area[d] = start_sub_area[d] if i == 0 else midpoint\n            end_sub_area[d] = midpoint if i == 0 else end_sub_area[d]\n",
      "        mid = self.grid.get_mid_point(self.start[d], self.end[d], d)\n        sub_area_array = []\n        for i in range(2):\n            start_sub_area = list(self.start)\n            end_sub_area = list(self.end)\n            start_sub_area[d] = start_sub_area[d] if i == 0 else mid\n            end_sub_area[d] = mid if i == 0 else end_sub_area[d]\n"),
    V("C07-n02-extend-coarsening-guard-flipped", "neutral",
      "            if self.coarseningValue == 0:\n                coarseningValue = 0\n            else:\n                coarseningValue = coarsening_level - 1\n",
      "            if self.coarseningValue != 0:\n                coarseningValue = coarsening_level - 1\n            else:\n                coarseningValue = 0\n"),
    V("C07-n03-update-records-first", "neutral", "        self.coarseningValue += update_info\n        self.levelvec_dict = {}\n", "        self.levelvec_dict = {}\n        self.coarseningValue += update_info\n"),
    V("C07-n04-logging-in-coarsen", "neutral", "                    area.add_level(tuple(temp), tuple(levelvector))\n",
      "                    area.add_level(tuple(temp), tuple(levelvector))\n                    self.log_util.log_debug('recorded')\n", file=ES),
    # round-3 rules
    V("C07-n60-given-coarsening-renamed", "neutral", None, None, edits=[
        {"file": "spatiallyAdaptiveExtendSplit.py", "old": "        coarsening_save = coarsening\n        area_is_null = False\n", "new": "        given_coarsening = area.coarseningValue\n        area_is_null = False\n"},
        {"file": "spatiallyAdaptiveExtendSplit.py", "old": "                    no_forward_problem = coarsening_save >= self.lmax[0] + self.dim - 1 - maxLevel - (\n                            self.dim - 2) - maxLevel + 1\n",
         "new": "                    no_forward_problem = given_coarsening >= self.lmax[0] + self.dim - 1 - maxLevel - (\n                            self.dim - 2) - maxLevel + 1\n"},
        {"file": "spatiallyAdaptiveExtendSplit.py", "old": "                    no_forward_problem = coarsening_save >= self.lmax[0] + self.dim - 1 - maxLevel - (\n                            self.dim - 2) - maxLevel + 2\n",
         "new": "                    no_forward_problem = given_coarsening >= self.lmax[0] + self.dim - 1 - maxLevel - (\n                            self.dim - 2) - maxLevel + 2\n"}]),
]
