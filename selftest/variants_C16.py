def V(id, kind, old, new, rule=None, prop="C16", file="GridOperation.py", **kw):
    d = {"id": id, "prop": prop, "kind": kind, "file": file, "old": old, "new": new}
    if rule:
        d["rule"] = rule
    d.update(kw)
    return d

REUSE_FILL = ("                            res = res\n                            self.old_R[str(overlap)] = res\n                        R[i][j] = res\n                        R[j][i] = res\n")
VARIANTS = [
    V("C16-b01-not-mirrored", "break", REUSE_FILL, REUSE_FILL.replace("                        R[j][i] = res\n", ""), "C16.D1"),
    V("C16-b02-lambda-everywhere", "break",
      "                        R[i][j] = res\n                        R[j][i] = res\n                        if i == j:\n                            R[i][j] += self.lambd\n            else:",
      "                        R[i][j] = res + self.lambd\n                        R[j][i] = res + self.lambd\n            else:", "C16.D2"),
    V("C16-b03-b-scaled-twice", "break", "            b *= (1 / M)\n            if self.debug:\n                self.log_util.log_debug(\"B vector: {0}\".format(b))\n        return b",
      "            b *= (1 / M)\n            if self.debug:\n                self.log_util.log_debug(\"B vector: {0}\".format(b))\n        if N >= threshold:\n            b *= (1 / M)\n        return b", "C16.D3"),
    V("C16-b04-label-of-previous-sample", "break",
      "                        sign = 1.0\n                        if self.classes is not None:\n                            sign = self.classes[i]\n                        if hats[j] in index_cache:",
      "                        sign = 1.0\n                        if self.classes is not None:\n                            sign = self.classes[i - 1]\n                        if hats[j] in index_cache:", "C16.D4"),
    V("C16-b05-unguarded-normalisation", "break", "        if integral != 0.0:\n            alphas /= integral\n", "        alphas /= integral\n", "C16.D5"),
    V("C16-b06-uniform-not-mirrored", "break", "                            R[i, j] = res\n                            R[j, i] = res\n", "                            R[i, j] = res\n", "C16.D1"),
    V("C16-b07-lambda-added-twice-uniform", "break", "            R[np.diag_indices_from(R)] += (diag_val + self.lambd)\n",
      "            R[np.diag_indices_from(R)] += (diag_val + self.lambd)\n            R += self.lambd * np.eye(grid_size) * (grid_size > 300)\n", "C16.D2"),
    V("C16-b08-reuse-entry-not-scaled", "break",
      "                        b[i] += (self.hat_function_non_symmetric(hat, domain, data[x]) * sign)\n                    b[i] *= (1 / M)\n        else:\n            if N < threshold:\n                evaluations",
      "                        b[i] += (self.hat_function_non_symmetric(hat, domain, data[x]) * sign)\n        else:\n            if N < threshold:\n                evaluations", "C16.D3"),
    V("C16-b09-normalise-without-clip", "break", "        integral = np.inner(alphas.clip(min=0.0), weights) / sum(weights)\n        if integral != 0.0:",
      "        integral = np.inner(alphas, weights) / sum(weights)\n        if integral != 0.0:", "C16.D5"),
    V("C16-b10-dimwise-label-of-other-sample", "break",
      "                        sign = 1.0\n                        if self.classes is not None:\n                            sign = self.classes[x]\n                        b[i] += (self.hat_function_non_symmetric(hat, domain, data[x]) * sign)\n                    b[i] *= (1 / M)\n        else:\n            if N < threshold:\n                evaluations",
      "                        sign = 1.0\n                        if self.classes is not None:\n                            sign = self.classes[i]\n                        b[i] += (self.hat_function_non_symmetric(hat, domain, data[x]) * sign)\n                    b[i] *= (1 / M)\n        else:\n            if N < threshold:\n                evaluations", "C16.D4"),
    V("C16-b11-lambda-before-plain-store", "break",
      "                        R[i][j] = res\n                        R[j][i] = res\n                        if i == j:\n                            R[i][j] += self.lambd\n            else:",
      "                        if i == j:\n                            R[i][j] += self.lambd\n                        R[i][j] = res\n                        R[j][i] = res\n            else:", "C16.D2"),
    V("C16-b12-m-is-grid-size", "break", "        M = len(data)\n        N = self.grid.get_num_points()", "        M = len(data)\n        N = self.grid.get_num_points()\n        M = max(M, N)", "C16.D3"),
    # neutral
    V("C16-n01-mirror-order", "neutral", "                            R[i, j] = res\n                            R[j, i] = res\n", "                            R[j, i] = res\n                            R[i, j] = res\n"),
    V("C16-n02-guard-flipped", "neutral", "        if integral != 0.0:\n            alphas /= integral\n", "        if not integral == 0.0:\n            alphas /= integral\n"),
    V("C16-n03-sign-name-kept-comment", "neutral", "            b *= (1 / M)\n            if self.debug:\n                self.log_util.log_debug(\"B vector: {0}\".format(b))\n        return b",
      "            b *= (1 / M)\n        return b"),
    # ---- C17
    V("C17-b01-cache-stores-lambda", "break", "                            res = res\n                            self.old_R[str(overlap)] = res\n",
      "                            res = res\n                            self.old_R[str(overlap)] = res + self.lambd\n", "C17.D1", prop="C17"),
    V("C17-b02-copy-when-only-point-matches", "break", "                if point_list[p] in old_point_list and point_list[p] and domain_match[p] != -1:\n                    # b[p]",
      "                if point_list[p] in old_point_list and point_list[p]:\n                    # b[p]", "C17.D2", prop="C17"),
    V("C17-b03-copy-by-point-index", "break", "                    # b[p] = old_b[old_point_list.index(point_list[p])]\n                    b[p] = old_b[domain_match[p]]",
      "                    b[p] = old_b[old_point_list.index(point_list[p])]", "C17.D2", prop="C17"),
    V("C17-b04-cache-key-of-transposed-pair", "break",
      "                        overlap = self.get_domain_overlap_width(points[i], list(zip(lower[i], upper[i])),\n                                                                points[j], list(zip(lower[j], upper[j])))",
      "                        overlap = self.get_domain_overlap_width(points[i], list(zip(lower[i], upper[i])),\n                                                                points[i], list(zip(lower[i], upper[i])))", "C17.D1", prop="C17"),
    V("C17-b05-old-b-not-emptied", "break", "            self.old_B = {}\n            self.old_grid_coord = {}\n            for key in self.new_B.keys():",
      "            self.old_grid_coord = {}\n            for key in self.new_B.keys():", "C17.D3", prop="C17"),
    V("C17-b06-new-grid-not-restarted", "break", "            self.new_B = {}\n            self.new_grid_coord = {}\n\n        surpluses", "            self.new_B = {}\n\n        surpluses", "C17.D3", prop="C17"),
    V("C17-b07-domain-match-start-only", "break",
      "                a = [sum([point_domains[i][d][0] == old[d][0] and point_domains[i][d][1] == old[d][1] for d in\n                          range(self.dim)]) == self.dim for old in old_point_domains]\n                if True in a:\n                    domain_match.append(a.index(True))\n                else:\n                    domain_match.append(-1)\n            for p in range(len(point_list)):\n                if point_list[p] in old_point_list and point_list[p] and domain_match[p] != -1:\n                    b[p] = old_b[domain_match[p]]",
      "                a = [sum([point_domains[i][d][0] == old[d][0] for d in\n                          range(self.dim)]) == self.dim for old in old_point_domains]\n                if True in a:\n                    domain_match.append(a.index(True))\n                else:\n                    domain_match.append(-1)\n            for p in range(len(point_list)):\n                if point_list[p] in old_point_list and point_list[p] and domain_match[p] != -1:\n                    b[p] = old_b[domain_match[p]]",
      "C17.D2", prop="C17"),
    V("C17-b08-hit-not-mirrored-path", "break", "                        if str(overlap) in self.old_R:\n                            res = self.old_R[str(overlap)]\n",
      "                        if str(overlap) in self.old_R:\n                            R[i][j] = self.old_R[str(overlap)]\n                            continue\n", None, prop="C17"),
    V("C17-n01-key-temp", "neutral", "                        if str(overlap) in self.old_R:\n                            res = self.old_R[str(overlap)]\n",
      "                        if str(overlap) in self.old_R:\n                            res = self.old_R[str(overlap)]\n                            self.log_util.log_debug('hit')\n", prop="C17"),
    V("C17-n02-match-flipped", "neutral", "                if point_list[p] in old_point_list and point_list[p] and domain_match[p] != -1:\n                    # b[p]",
      "                if domain_match[p] != -1 and point_list[p] in old_point_list and point_list[p]:\n                    # b[p]", prop="C17"),
]
