def V(id, kind, old, new, rule=None, file="spatiallyAdaptiveBase.py", **kw):
    d = {"id": id, "prop": "C13", "kind": kind, "file": file, "old": old, "new": new}
    if rule:
        d["rule"] = rule
    d.update(kw)
    return d


STOPS = ("            if error <= tol and num_evaluations >= min_evaluations:\n                break\n"
         "            if max_evaluations is not None and num_evaluations > max_evaluations:\n                break\n")

VARIANTS = [
    V("C13-b01-strict-tolerance", "break", "            if error <= tol and num_evaluations >= min_evaluations:",
      "            if error < tol and num_evaluations >= min_evaluations:", "C13.D2"),
    V("C13-b02-tests-surplus-error", "break", "            if error <= tol and num_evaluations >= min_evaluations:",
      "            if surplus_error <= tol and num_evaluations >= min_evaluations:", "C13.D2"),
    V("C13-b03-append-after-break", "break",
      "            self.num_point_array.append(self.get_total_num_points(distinct_function_evals=True))\n", "", None,
      edits=[{"file": "spatiallyAdaptiveBase.py", "old": "            self.num_point_array.append(self.get_total_num_points(distinct_function_evals=True))\n", "new": ""},
             {"file": "spatiallyAdaptiveBase.py", "old": "            if self.single_step:\n                self.last_point_count = self.get_total_num_points()\n",
              "new": "            self.num_point_array.append(self.get_total_num_points(distinct_function_evals=True))\n            if self.single_step:\n                self.last_point_count = self.get_total_num_points()\n"}]),
    V("C13-b04-refine-before-tests", "break", None, None, None,
      edits=[{"file": "spatiallyAdaptiveBase.py", "old": "            # refine further\n            self.log_util.time_func(\"spatialAdaptBase: refine time taken\", self.refine)\n", "new": ""},
             {"file": "spatiallyAdaptiveBase.py", "old": "            # Check if conditions are met to abort refining\n",
              "new": "            self.log_util.time_func(\"spatialAdaptBase: refine time taken\", self.refine)\n            # Check if conditions are met to abort refining\n"}]),
    V("C13-b05-signed-error", "break",
      "            return LA.norm(abs(volumes), norm) / (len(volumes) ** (1 / norm))\n        # Normalized volumes\n        return LA.norm(abs(volumes * volume_weights), norm)",
      "            return np.sum(volumes) / (len(volumes) ** (1 / norm))\n        # Normalized volumes\n        return LA.norm(abs(volumes * volume_weights), norm)",
      "C13.D4", file="ErrorCalculator.py"),
    V("C13-b06-max-stop-inclusive-off-by-one", "break", "            if max_evaluations is not None and num_evaluations > max_evaluations:",
      "            if max_evaluations is not None and num_evaluations >= max_evaluations:", "C13.D2"),
    V("C13-b07-min-evaluations-ignored", "break", "            if error <= tol and num_evaluations >= min_evaluations:",
      "            if error <= tol:", "C13.D2"),
    V("C13-b08-count-recorded-differs", "break",
      "            self.num_point_array.append(self.get_total_num_points(distinct_function_evals=True))",
      "            self.num_point_array.append(self.get_total_num_points(distinct_function_evals=False))", "C13.D2"),
    V("C13-b09-integration-error-not-relative", "break",
      "            return LA.norm(abs((self.reference_solution - self.integral) / self.reference_solution), norm) / (\n                        len(self.integral) ** (1 / norm))",
      "            return LA.norm(abs((self.reference_solution - self.integral)), norm) / (\n                        len(self.integral) ** (1 / norm))",
      "C13.D5", file="GridOperation.py"),
    V("C13-b10-stale-count-tested", "break", "            num_evaluations = self.get_total_num_points()\n",
      "            num_evaluations = self.refinement.evaluationstotal\n", "C13.D2"),
    V("C13-b11-error-array-conditional", "break", "            self.error_array.append(error)\n",
      "            if error > tol:\n                self.error_array.append(error)\n", "C13.D1"),
    V("C13-b12-extra-stop", "break", "            if self.single_step:\n                self.last_point_count = self.get_total_num_points()\n",
      "            if self.single_step:\n                self.last_point_count = self.get_total_num_points()\n            if self.refinements > 10000:\n                break\n", "C13.D2"),
    V("C13-b13-refine-after-loop", "break",
      "        # finished adaptive algorithm\n", "        # finished adaptive algorithm\n        if self.refinements == 0:\n            self.refine()\n", "C13.D3"),
    V("C13-b14-compute-difference-signed", "break",
      "        return LA.norm(abs(first_value - second_value), norm)", "        return np.sum(first_value - second_value)", "C13.D4", file="GridOperation.py"),
    V("C13-b15-records-old-error", "break", "            self.error_array.append(error)\n", "            self.error_array.append(surplus_error)\n", "C13.D1"),
    # neutral
    V("C13-n01-comparison-flipped", "neutral", "            if error <= tol and num_evaluations >= min_evaluations:",
      "            if min_evaluations <= num_evaluations and not error > tol:"),
    V("C13-n02-nested-ifs", "neutral", "            if error <= tol and num_evaluations >= min_evaluations:\n                break\n",
      "            if error <= tol:\n                if num_evaluations >= min_evaluations:\n                    break\n"),
    V("C13-n03-rename-count", "neutral", "num_evaluations", "points_now", all=True),
    V("C13-n04-direct-calls", "neutral",
      "            self.log_util.time_func(\"spatialAdaptBase: refine time taken\", self.refine)\n", "            self.refine()\n"),
    V("C13-n05-count-default-kw-dropped", "neutral",
      "            self.num_point_array.append(self.get_total_num_points(distinct_function_evals=True))",
      "            self.num_point_array.append(self.get_total_num_points())"),
    V("C13-n06-error-via-square-root", "neutral",
      "        return LA.norm(abs(first_value - second_value), norm)", "        return abs(LA.norm(first_value - second_value, norm))", file="GridOperation.py"),
    # generic state rules (sa/statecheck.py)
    V("C13-b50-norm-argument-dropped", "break", "        self.norm = norm\n        self.margin = 0.9\n", "        self.norm = 2\n        self.margin = 0.9\n", "C13.S3",
      file="spatiallyAdaptiveBase.py"),
    V("C13-n50-norm-through-helper", "neutral", None, None, edits=[
        {"file": "spatiallyAdaptiveBase.py", "old": "        self.norm = norm\n        self.margin = 0.9\n",
         "new": "        self._set_norm(norm)\n        self.margin = 0.9\n"},
        {"file": "spatiallyAdaptiveBase.py", "old": "    def init_adaptive_combi(self,", "new": "    def _set_norm(self, norm_):\n        self.norm = norm_\n\n    def init_adaptive_combi(self,"}]),
]
